//! C04 twin-run oracle: the file saved by a history must decode to the same
//! content as the file saved by the same history without its refused calls.
//! Slot numbers and the number of empty slots are deliberately not compared.

use crate::codec::{self, Cell, Decoded};
use crate::ops::Val;

fn resolve(d: &Decoded, table: &str) -> Result<Vec<Vec<Val>>, String> {
    let t = d.tables.get(table).ok_or_else(|| format!("table {:?} missing", table))?;
    let mut out = Vec::new();
    for r in t.rows.iter() {
        let mut row = Vec::new();
        for c in r.iter() {
            row.push(match c {
                Cell::Null => Val::Null,
                Cell::Int(i) => Val::Int(*i),
                Cell::Ref(i) => match d.pool_text(*i) {
                    Some(s) => Val::Str(s),
                    None => return Err(format!("table {:?}: dangling reference {}", table, i)),
                },
            });
        }
        out.push(row);
    }
    Ok(out)
}

pub fn compare_images(a: &[u8], b: &[u8]) -> Option<String> {
    let da = match codec::decode(a) {
        Ok(d) => d,
        Err(e) => return Some(format!("file with refused calls does not decode: {}", e)),
    };
    let db = match codec::decode(b) {
        Ok(d) => d,
        Err(e) => return Some(format!("twin file does not decode: {}", e)),
    };
    if !da.problems.is_empty() {
        return Some(format!("file with refused calls: {}", da.problems[0].1));
    }
    if da.ptype != db.ptype || da.codepage != db.codepage || da.long_refs != db.long_refs {
        return Some("package type / code page / reference width differ".into());
    }
    let ka: Vec<&String> = da.tables.keys().collect();
    let kb: Vec<&String> = db.tables.keys().collect();
    if ka != kb {
        return Some(format!("table sets differ: {:?} vs {:?}", ka, kb));
    }
    for t in ka {
        if da.tables[t].cols != db.tables[t].cols {
            return Some(format!("columns of {:?} differ", t));
        }
        match (resolve(&da, t), resolve(&db, t)) {
            (Ok(x), Ok(y)) => {
                if x != y {
                    return Some(format!("rows of {:?} differ ({} vs {})", t, x.len(), y.len()));
                }
            }
            (Err(e), _) | (_, Err(e)) => return Some(e),
        }
    }
    if da.streams != db.streams {
        return Some(format!(
            "streams differ: {:?} vs {:?}",
            da.streams.keys().collect::<Vec<_>>(),
            db.streams.keys().collect::<Vec<_>>()
        ));
    }
    let mut ea = da.entries.clone();
    let mut eb = db.entries.clone();
    ea.sort();
    eb.sort();
    if ea != eb {
        return Some("container entry lists differ".into());
    }
    match (&da.summary, &db.summary) {
        (Some(x), Some(y)) => match (codec::parse_propset(x, false), codec::parse_propset(y, false)) {
            (Ok(p), Ok(q)) => {
                if p.props != q.props {
                    return Some("summary properties differ".into());
                }
            }
            (Err(e), _) | (_, Err(e)) => return Some(format!("summary stream: {}", e)),
        },
        (None, None) => {}
        _ => return Some("summary stream present in only one file".into()),
    }
    let live = |d: &Decoded| -> Vec<(Vec<u8>, u32)> {
        let mut v: Vec<(Vec<u8>, u32)> =
            d.pool.iter().filter(|e| e.refcount > 0).map(|e| (e.bytes.clone(), e.refcount)).collect();
        v.sort();
        v
    };
    let (la, lb) = (live(&da), live(&db));
    if la != lb {
        let extra: Vec<String> = la
            .iter()
            .filter(|e| !lb.contains(e))
            .take(3)
            .map(|e| format!("{:?} x{}", String::from_utf8_lossy(&e.0[..e.0.len().min(30)]), e.1))
            .collect();
        return Some(format!(
            "live string pool entries differ ({} vs {}); only with the refused calls: {:?}",
            la.len(),
            lb.len(),
            extra
        ));
    }
    for (which, d) in [("file with refused calls", &da), ("twin file", &db)] {
        if let Some((i, _)) = d.pool.iter().enumerate().find(|(_, e)| e.refcount == 0 && !e.bytes.is_empty()) {
            return Some(format!("{}: free pool slot {} still holds text", which, i + 1));
        }
        if d.data_used != d.data_len {
            return Some(format!("{}: string data longer than the pool accounts for", which));
        }
    }
    None
}
