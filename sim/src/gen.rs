//! Trace generation: from the reference model alone, before the
//! implementation is touched.  Swarm style: every run draws its own alphabet
//! subset, sizes, code pages, disk behaviour and fault rates.

use crate::corrupt::CorruptSpec;
use crate::disk::DiskCfg;
use crate::foreign::*;
use crate::model::*;
use crate::names;
use crate::ops::*;
use crate::prng::{hash_str, mix, Prng};

#[derive(Clone, Copy, PartialEq, Eq, Debug)]
pub enum Profile {
    Clean,
    Benign,
    Crash,
    Foreign,
    Reject,
    Schema,
    Summary,
    Streams,
    Handles,
    Script,
    Corrupt,
    Limits,
    ReadOnly,
}

impl Profile {
    pub fn name(self) -> &'static str {
        match self {
            Profile::Clean => "clean",
            Profile::Benign => "benign",
            Profile::Crash => "crash",
            Profile::Foreign => "foreign",
            Profile::Reject => "reject",
            Profile::Schema => "schema",
            Profile::Summary => "summary",
            Profile::Streams => "streams",
            Profile::Handles => "handles",
            Profile::Script => "script",
            Profile::Corrupt => "corrupt",
            Profile::Limits => "limits",
            Profile::ReadOnly => "readonly",
        }
    }
    pub fn parse(s: &str) -> Option<Profile> {
        Some(match s {
            "clean" => Profile::Clean,
            "benign" => Profile::Benign,
            "crash" => Profile::Crash,
            "foreign" => Profile::Foreign,
            "reject" => Profile::Reject,
            "schema" => Profile::Schema,
            "summary" => Profile::Summary,
            "streams" => Profile::Streams,
            "handles" => Profile::Handles,
            "script" => Profile::Script,
            "corrupt" => Profile::Corrupt,
            "limits" => Profile::Limits,
            "readonly" => Profile::ReadOnly,
            _ => return None,
        })
    }
}

const K_CREATE: usize = 0;
const K_DROP: usize = 1;
const K_INSERT: usize = 2;
const K_UPDATE: usize = 3;
const K_DELETE: usize = 4;
const K_SELECT: usize = 5;
const K_WSTREAM: usize = 6;
const K_RSTREAM: usize = 7;
const K_RMSTREAM: usize = 8;
const K_SUMMARY: usize = 9;
const K_DBCP: usize = 10;
const K_FLUSH: usize = 11;
const K_RESTART: usize = 12;
const K_RMSIG: usize = 13;
const K_INVALID: usize = 14;
const K_OBSERVE: usize = 15;
const NKINDS: usize = 16;

pub struct Gen {
    pub rng: Prng,
    pub profile: Profile,
    pub model: Model,
    serial: u32,
    alphabet: Vec<char>,
    cp_set: Vec<u32>,
    recent: Vec<String>,
    stream_names: Vec<String>,
    ops: Vec<OpRec>,
    next_id: u32,
    table_seq: u32,
    weights: [u32; NKINDS],
    max_rows_per_insert: usize,
    allow_long: bool,
    explicit_stream_flush: bool,
    handles_open: Vec<(u8, String, u32, Vec<WStep>)>,
    avoid_delete_under_handle: bool,
}

const I16_POOL: [i32; 9] = [0, 1, -1, 2, 7, 32767, -32767, 100, -100];
const I32_POOL: [i32; 11] = [0, 1, -1, 3, 32768, -32768, 65536, 2147483647, -2147483647, 1000000, -65537];

impl Gen {
    fn push(&mut self, op: Op) {
        let id = self.next_id;
        self.next_id += 1;
        self.ops.push(OpRec { id, op });
    }

    fn token(&mut self, lower: bool) -> String {
        self.serial += 1;
        if lower {
            format!("q{}q", self.serial)
        } else {
            format!("Q{}Q", self.serial)
        }
    }

    fn filler(&mut self, n: usize, cat: Option<&str>) -> String {
        let mut s = String::new();
        for _ in 0..n {
            let c = match cat {
                Some("Identifier") => *self.rng.pick(&['a', 'B', 'c', '_', '.', '7', 'x', 'Y']),
                Some("UpperCase") => *self.rng.pick(&['A', 'B', ' ', '7', '-', 'Z']),
                Some("LowerCase") => *self.rng.pick(&['a', 'b', ' ', '7', '-', 'z']),
                _ => {
                    if !self.alphabet.is_empty() && self.rng.chance(300) {
                        *self.rng.pick(&self.alphabet)
                    } else {
                        *self.rng.pick(&['a', 'b', 'c', ' ', 'd', 'e', '1', '2', ';', ',', 'X', '%'])
                    }
                }
            };
            s.push(c);
        }
        s
    }

    /// A fresh (or deliberately re-used) valid string for the column.
    fn gen_string(&mut self, c: &ColSpec) -> String {
        if !c.enums.is_empty() {
            // (a listed value can still be too long for the column: not a valid value)
            let ok: Vec<String> = c.enums.iter().filter(|e| value_valid(c, &Val::Str(e.to_string()))).cloned().collect();
            if ok.is_empty() {
                return String::new();
            }
            return self.rng.pick(&ok).clone();
        }
        let w = match c.ty {
            CType::Str(w) => w as usize,
            _ => 0,
        };
        let cat = c.category.as_deref();
        // deliberate sharing so that refcounts above 1 occur
        if self.rng.chance(250) && !self.recent.is_empty() {
            let cand = self.rng.pick(&self.recent).clone();
            if value_valid(c, &Val::Str(cand.clone())) {
                return cand;
            }
        }
        if self.rng.chance(if c.key { 90 } else { 40 }) && value_valid(c, &Val::Str(String::new())) {
            return String::new();
        }
        // a few kilobytes with multi-byte characters (encoders work in 1 KiB chunks)
        if w == 0 && matches!(cat, None | Some("Text")) && self.rng.chance(10) {
            let tok = self.token(false);
            let n = 1000 + self.rng.usize_below(1200);
            let f = self.filler(n, cat);
            return format!("{}{}", tok, f);
        }
        if self.allow_long && w == 0 && matches!(cat, None | Some("Text")) && self.rng.chance(25) {
            self.serial += 1;
            // (the exact boundary lengths are what matters: drawn two times out of three)
            let len = *self.rng.pick(&[65535u32, 65535, 65536, 65536, 65537, 65535 + 4096, 131072, 70000]) + if self.rng.chance(670) { 0 } else { self.rng.below(3000) as u32 };
            return long_string(self.serial, len);
        }
        // text that *starts* with the bytes of a byte-order mark in some code
        // page (FF FE, EF BB BF) is ordinary text there
        if matches!(cat, None | Some("Text")) && (w == 0 || w >= 16) && self.rng.chance(15) {
            for lead in ["ÿþ", "þÿ", "ï»¿"] {
                if lead.chars().all(|c| self.alphabet.contains(&c)) && self.rng.chance(500) {
                    let tok = self.token(false);
                    return format!("{}{}", lead, tok);
                }
            }
        }
        let lower = cat == Some("LowerCase");
        let tok = self.token(lower);
        let tl = tok.chars().count();
        let s = if w != 0 && w < tl {
            // too narrow for a serial: short unattributable strings
            let n = 1 + self.rng.usize_below(w);
            if cat == Some("Identifier") {
                format!("k{}", &"abcdefgh"[..(n - 1).min(8)])
            } else {
                self.filler(n, cat)
            }
        } else {
            let room = if w == 0 { 24 } else { (w - tl).min(24) };
            let n = if room == 0 { 0 } else { self.rng.usize_below(room + 1) };
            let f = self.filler(n, cat);
            format!("{}{}", tok, f)
        };
        if value_valid(c, &Val::Str(s.clone())) {
            if self.recent.len() < 24 {
                self.recent.push(s.clone());
            } else {
                let i = self.rng.usize_below(24);
                self.recent[i] = s.clone();
            }
            s
        } else {
            tok
        }
    }

    fn gen_value(&mut self, c: &ColSpec, key_bias: bool) -> Val {
        if c.nullable && self.rng.chance(if key_bias { 60 } else { 150 }) {
            return Val::Null;
        }
        // a foreign-key column mostly holds values of the column it refers to
        if let Some((t, n)) = &c.fk {
            if self.rng.chance(600) {
                if let Some(pt) = self.model.tables.get(t) {
                    let ci = (*n as usize).saturating_sub(1);
                    if ci < pt.cols.len() && !pt.rows.is_empty() {
                        let v = pt.rows[self.rng.usize_below(pt.rows.len())][ci].clone();
                        if value_valid(c, &v) {
                            return v;
                        }
                    }
                }
            }
        }
        match c.ty {
            CType::I16 | CType::I32 => {
                let (lo, hi) = match (c.range, c.ty) {
                    (Some((a, b)), CType::I16) => (a.max(-32767), b.min(32767)),
                    (Some((a, b)), _) => (a.max(-2147483647), b),
                    (None, CType::I16) => (-32767, 32767),
                    (None, _) => (-2147483647, 2147483647),
                };
                if lo > hi {
                    return Val::Int(lo);
                }
                let pool: &[i32] = if c.ty == CType::I16 { &I16_POOL } else { &I32_POOL };
                for _ in 0..4 {
                    let v = if key_bias || self.rng.chance(500) {
                        self.rng.range(-3, 9) as i32
                    } else if self.rng.chance(300) {
                        *self.rng.pick(&[lo, hi, lo.saturating_add(1), hi.saturating_sub(1)])
                    } else {
                        *self.rng.pick(pool)
                    };
                    if v >= lo && v <= hi {
                        return Val::Int(v);
                    }
                }
                Val::Int(lo)
            }
            CType::Str(_) => Val::Str(self.gen_string(c)),
        }
    }

    fn ident(&mut self, len: usize) -> String {
        let mut s = String::new();
        if self.rng.chance(300) {
            // every character the stream-name packing has a code for
            const FULL: &[u8] = b"0123456789ABCDEFGHIJKLMNOPQRSTUVWXYZabcdefghijklmnopqrstuvwxyz._";
            s.push(FULL[10 + self.rng.usize_below(52)] as char);
            while s.len() < len {
                s.push(FULL[self.rng.usize_below(64)] as char);
            }
            return s;
        }
        s.push(*self.rng.pick(&['A', 'b', '_', 'T', 'x']));
        while s.len() < len {
            s.push(*self.rng.pick(&['a', 'B', 'c', '1', '_', '.', 'Z', '9']));
        }
        s
    }

    fn plain_col(&mut self, name: String, key: bool) -> ColSpec {
        let mut c = ColSpec::new(&name, CType::I16);
        c.key = key;
        c.nullable = self.rng.chance(if key { 200 } else { 450 });
        c.localizable = self.rng.chance(150);
        match self.rng.below(10) {
            0..=2 => {
                c.ty = CType::I16;
                if self.rng.chance(250) {
                    c.range = Some(*self.rng.pick(&[
                        (-5, 100),
                        (1, 32),
                        (-32767, 32767),
                        (0, 9),
                        (-3, 3),
                        (-32768, 32767),
                        (0, 50000),
                        (-40000, 40000),
                        (7, 7),
                        (0, 0),
                    ]));
                }
            }
            3..=4 => {
                c.ty = CType::I32;
                if self.rng.chance(250) {
                    c.range = Some(*self.rng.pick(&[(-5, 100), (-2147483647, 2147483647), (0, 70000), (1, 2), (7, 7), (0, 0)]));
                }
            }
            _ => {
                let w = *self.rng.pick(&[0u32, 0, 1, 2, 8, 16, 38, 64, 72, 255]);
                c.ty = CType::Str(w);
                match self.rng.below(10) {
                    0..=4 => {}
                    5 => c.category = Some("Text".into()),
                    6..=7 => c.category = Some("Identifier".into()),
                    8 => c.category = Some("UpperCase".into()),
                    _ => c.category = Some("LowerCase".into()),
                }
                if c.category.is_none() && self.rng.chance(120) {
                    let e: &[&str] = match self.rng.below(4) {
                        0 => &["Y", "N"],
                        1 => &["red", "green", "blue"],
                        2 => &[" on", "off ", "auto", "two words"],
                        _ => &["a"],
                    };
                    if w == 0 || e.iter().all(|s| s.len() <= w as usize) || (w >= 1 && self.rng.chance(600) && e.iter().any(|s| s.len() <= w as usize)) {
                        // (sometimes an enumeration that is inconsistent with the width: a listed
                        // value that is too long stays an invalid value)
                        c.enums = e.iter().map(|s| s.to_string()).collect();
                    }
                }
            }
        }
        if c.is_str() && c.enums.is_empty() && self.rng.chance(50) {
            // a range is stored for any column; it constrains integers only
            c.range = Some(*self.rng.pick(&[(-5, 100), (1, 10), (0, 0)]));
        }
        if self.rng.chance(90) {
            let ts = self.user_plain_tables();
            let target = if !ts.is_empty() && self.rng.chance(600) { self.rng.pick(&ts).clone() } else { "Other".to_string() };
            c.fk = Some((target, 1 + self.rng.below(3) as i32));
        }
        c
    }

    fn gen_plain_table(&mut self, max_cols: usize) -> (String, Vec<ColSpec>) {
        self.table_seq += 1;
        let like_stream: Vec<String> = self
            .stream_names
            .iter()
            .filter(|n| {
                n.len() <= 31
                    && n.chars().next().map(|c| c.is_ascii_alphabetic() || c == '_').unwrap_or(false)
                    && n.chars().all(|c| c.is_ascii_alphanumeric() || c == '_' || c == '.')
                    && !self.model.tables.contains_key(*n)
                    && !n.starts_with("_")
            })
            .cloned()
            .collect();
        let name = if !like_stream.is_empty() && self.rng.chance(150) {
            // a table named like an existing stream
            self.rng.pick(&like_stream).clone()
        } else if self.rng.chance(800) {
            format!("T{}", self.table_seq)
        } else {
            let l = *self.rng.pick(&[1usize, 2, 5, 17, 31, 32]);
            let mut n = self.ident(l);
            n.push_str(&self.table_seq.to_string());
            n.truncate(32);
            n
        };
        let ncols = 1 + self.rng.usize_below(max_cols.max(1));
        let nkeys = if self.rng.chance(300) && ncols >= 2 { 2 } else { 1 };
        let mut cols = Vec::new();
        // key columns conventionally come first, but may be declared anywhere
        let mut key_pos: Vec<usize> = (0..nkeys).collect();
        if self.rng.chance(300) {
            let mut all: Vec<usize> = (0..ncols).collect();
            self.rng.shuffle(&mut all);
            key_pos = all[..nkeys].to_vec();
        }
        for i in 0..ncols {
            let cname = if self.rng.chance(900) { format!("C{}", i + 1) } else { format!("{}{}", self.ident(3), i) };
            let is_key = key_pos.contains(&i);
            let mut c = self.plain_col(cname, is_key);
            if is_key && c.is_str() {
                // key strings need room for a serial
                if let CType::Str(w) = c.ty {
                    if w != 0 && w < 12 && c.enums.is_empty() {
                        c.ty = CType::Str(38);
                    }
                }
            }
            cols.push(c);
        }
        (name, cols)
    }

    /// Column lists over all builder options (C06): the model does not
    /// predict acceptance; accepted => must survive exactly.
    fn op_create_exotic(&mut self) -> Option<Op> {
        self.table_seq += 1;
        let name = if self.rng.chance(12) {
            // reserved: the string pool's own streams are named like table streams
            self.rng.pick(&["_StringPool", "_StringData"]).to_string()
        } else if self.rng.chance(850) {
            format!("X{}", self.table_seq)
        } else {
            let l = *self.rng.pick(&[1usize, 31, 32, 33, 40, 59, 60]);
            let mut n = self.ident(l);
            let suffix = self.table_seq.to_string();
            n.truncate(l.saturating_sub(suffix.len()).max(1));
            n.push_str(&suffix);
            n
        };
        let ncols = match self.rng.below(20) {
            0 => 32,
            1 => 33,
            2 => 31,
            _ => 1 + self.rng.usize_below(6),
        };
        let mut cols = Vec::new();
        for i in 0..ncols {
            let cname = match self.rng.below(20) {
                0 => {
                    let l = *self.rng.pick(&[31usize, 32, 33, 63, 64, 65]);
                    let mut n = self.ident(l);
                    n.truncate(l.saturating_sub(2).max(1));
                    n.push_str(&format!("{:02}", i % 100));
                    n
                }
                _ => format!("C{}", i + 1),
            };
            let mut c = ColSpec::new(&cname, CType::I16);
            c.key = i == 0 || self.rng.chance(150);
            c.nullable = self.rng.chance(400);
            c.localizable = self.rng.chance(300);
            match self.rng.below(10) {
                0..=1 => c.ty = CType::I16,
                2..=3 => c.ty = CType::I32,
                _ => {
                    c.ty = CType::Str(*self.rng.pick(&[
                        0u32, 1, 2, 72, 254, 255, 255, 256, 257, 300, 511, 512, 1000, 32767, 32768, 65535,
                    ]))
                }
            }
            if self.rng.chance(if c.is_str() { 500 } else { 60 }) {
                c.category = Some(self.rng.pick(&CATEGORIES).to_string());
            }
            if self.rng.chance(250) {
                let lists: [&[&str]; 13] = [
                    &["a;b", "c"],
                    &[""],
                    &["a", ""],
                    &["", "a"],
                    &["x"],
                    &["Y", "N"],
                    &["one", "two", "three", "four"],
                    &[";"],
                    &["a", "a"],
                    &["A ", " B", "two words"],
                    &[" "],
                    &["x", " "],
                    &["Tab\t", "\tlead", "x\ny"],
                ];
                c.enums = self.rng.pick(&lists).iter().map(|s| s.to_string()).collect();
                if self.rng.chance(100) {
                    c.enums = vec!["v".repeat(*self.rng.pick(&[127usize, 128, 254, 255, 256])), "w".repeat(127)];
                }
            }
            if self.rng.chance(300) {
                let pts = [i32::MIN, -0x7fff_ffff, -32768, -32767, -1, 0, 1, 32, 32767, 32768, 0x7fff_ffff];
                c.range = Some((*self.rng.pick(&pts), *self.rng.pick(&pts)));
            }
            if self.rng.chance(200) {
                let t = match self.rng.below(6) {
                    0 => "9x".to_string(),
                    1 => String::new(),
                    2 => "K".repeat(*self.rng.pick(&[254usize, 255, 256])),
                    _ => "Other".to_string(),
                };
                c.fk = Some((t, *self.rng.pick(&[0i32, 1, 2, 32, 33, -1, 40000])));
            }
            cols.push(c);
        }
        if self.rng.chance(30) {
            for c in cols.iter_mut() {
                c.key = false;
            }
        }
        if self.model.expect_create_table(&name, &cols) == Expect::Ok {
            self.model.apply_create_table(&name, &cols);
        }
        Some(Op::CreateTable { name, cols })
    }

    fn user_plain_tables(&self) -> Vec<String> {
        self.model.tables.iter().filter(|(_, t)| t.plain && !t.catalog).map(|(n, _)| n.clone()).collect()
    }

    fn gen_row(&mut self, t: &TableM) -> Vec<Val> {
        t.cols.iter().map(|c| self.gen_value(c, c.key)).collect()
    }

    /// A row whose strings all exist already (a pure reference-count bump).
    fn gen_row_reusing(&mut self, t: &TableM) -> Vec<Val> {
        let mut pool: Vec<String> = Vec::new();
        // strings of user rows and of the catalog itself (table, column and
        // category names, enumeration sets): all live in the same pool
        for (_, tm) in self.model.tables.iter() {
            for r in tm.rows.iter().take(40) {
                for v in r.iter() {
                    if let Val::Str(s) = v {
                        pool.push(s.clone());
                    }
                }
            }
        }
        t.cols
            .iter()
            .map(|c| {
                if c.is_str() {
                    for _ in 0..6 {
                        if pool.is_empty() {
                            break;
                        }
                        let cand = Val::Str(self.rng.pick(&pool).clone());
                        if value_valid(c, &cand) {
                            return cand;
                        }
                    }
                    if c.nullable {
                        return Val::Null;
                    }
                }
                self.gen_value(c, c.key)
            })
            .collect()
    }

    fn gen_cond(&mut self, t: &TableM, depth: u32) -> Cond {
        let ci = self.rng.usize_below(t.cols.len());
        let c = &t.cols[ci];
        let r = self.rng.below(100);
        if depth < 2 && r < 4 {
            // the value of a logical sub-condition (1 or 0) under a comparison;
            // a literal operand that does not decide it, and a column whose
            // value is neither 0 nor 1, are the interesting case
            let col = Cond::Truthy(c.name.clone());
            let inner = match self.rng.below(4) {
                0 => Cond::And(Box::new(Cond::Const(true)), Box::new(col)),
                1 => Cond::Or(Box::new(Cond::Const(false)), Box::new(col)),
                2 => Cond::And(Box::new(col), Box::new(Cond::Const(true))),
                _ => Cond::Not(Box::new(self.gen_cond(t, depth + 1))),
            };
            let op = *self.rng.pick(&[CmpOp::Eq, CmpOp::Ne, CmpOp::Ge, CmpOp::Lt]);
            return Cond::CmpBool(Box::new(inner), op, Val::Int(*self.rng.pick(&[1, 0, 1, 2])));
        }
        if depth < 2 && r < 25 {
            let a = self.gen_cond(t, depth + 1);
            let b = self.gen_cond(t, depth + 1);
            return match self.rng.below(3) {
                0 => Cond::And(Box::new(a), Box::new(b)),
                1 => Cond::Or(Box::new(a), Box::new(b)),
                _ => Cond::Not(Box::new(a)),
            };
        }
        if r < 31 {
            // an arithmetic or bitwise term under the comparison; operands are
            // kept where nothing can overflow (C13 is not claimed here, only
            // that rows are selected by the documented value)
            let small16 = c.ty == CType::I16;
            let is_str = c.is_str();
            let aop = if is_str {
                *self.rng.pick(&[AOp::Add, AOp::Add, AOp::Add, AOp::Sub, AOp::Div, AOp::Neg])
            } else if small16 {
                *self.rng.pick(&[AOp::Add, AOp::Sub, AOp::Mul, AOp::Div, AOp::Div, AOp::And, AOp::Or, AOp::Xor, AOp::Shl, AOp::Shr, AOp::Neg, AOp::Inv])
            } else {
                *self.rng.pick(&[AOp::Div, AOp::Div, AOp::And, AOp::Or, AOp::Xor, AOp::Shr, AOp::Neg, AOp::Inv])
            };
            let l = if is_str {
                match aop {
                    AOp::Add if self.rng.chance(120) => Val::Str(String::new()),
                    AOp::Add if self.rng.chance(850) => Val::Str(self.filler(2, None)),
                    AOp::Div => Val::Int(0),
                    _ => Val::Int(1),
                }
            } else {
                match aop {
                    AOp::Shl => Val::Int(self.rng.range(0, 8) as i32),
                    AOp::Shr => Val::Int(self.rng.range(0, 31) as i32),
                    AOp::Div => Val::Int(*self.rng.pick(&[2, 2, 3, -2, -3, 7, 1, -1, 0, 10])),
                    AOp::Mul => Val::Int(self.rng.range(-100, 100) as i32),
                    AOp::Add if self.rng.chance(60) => Val::Str("x".into()),
                    _ => Val::Int(self.rng.range(-1000, 1000) as i32),
                }
            };
            let rhs = if !t.rows.is_empty() && self.rng.chance(750) {
                arith(&t.rows[self.rng.usize_below(t.rows.len())][ci], aop, &l)
            } else if self.rng.chance(150) {
                Val::Null
            } else {
                Val::Int(self.rng.range(-4, 4) as i32)
            };
            let op = *self.rng.pick(&[CmpOp::Eq, CmpOp::Eq, CmpOp::Ne, CmpOp::Lt, CmpOp::Le, CmpOp::Gt, CmpOp::Ge]);
            return Cond::Arith(c.name.clone(), aop, l, op, rhs);
        }
        if r < 33 {
            return Cond::Truthy(c.name.clone());
        }
        if r < 35 {
            return Cond::Const(self.rng.chance(500));
        }
        let lit = if c.is_str() && self.rng.chance(40) {
            // the empty string is a string literal, not null
            Val::Str(String::new())
        } else if !t.rows.is_empty() && self.rng.chance(700) {
            t.rows[self.rng.usize_below(t.rows.len())][ci].clone()
        } else if self.rng.chance(100) {
            Val::Null
        } else {
            match c.ty {
                CType::Str(_) => Val::Str(self.filler(2, None)),
                _ => Val::Int(self.rng.range(-3, 9) as i32),
            }
        };
        let op = *self.rng.pick(&[CmpOp::Eq, CmpOp::Eq, CmpOp::Ne, CmpOp::Lt, CmpOp::Le, CmpOp::Gt, CmpOp::Ge]);
        Cond::Cmp(c.name.clone(), op, lit)
    }

    fn opt_cond(&mut self, t: &TableM) -> Option<Cond> {
        if self.rng.chance(350) {
            None
        } else {
            Some(self.gen_cond(t, 0))
        }
    }

    // ------------------------------------------------------------ valid ops

    fn op_create(&mut self) -> Option<Op> {
        if self.user_plain_tables().len() >= 8 {
            return None;
        }
        let (name, cols) = self.gen_plain_table(6);
        match self.model.expect_create_table(&name, &cols) {
            Expect::Ok => {
                self.model.apply_create_table(&name, &cols);
                Some(Op::CreateTable { name, cols })
            }
            // e.g. a package without a _Validation table: the outcome is the
            // implementation's to decide (the generator plans as if refused)
            Expect::Either => Some(Op::CreateTable { name, cols }),
            Expect::Err => None,
        }
    }

    fn op_drop(&mut self) -> Option<Op> {
        let ts = self.user_plain_tables();
        if ts.is_empty() {
            return None;
        }
        let name = self.rng.pick(&ts).clone();
        self.model.apply_drop_table(&name);
        Some(Op::DropTable { name })
    }

    fn op_insert(&mut self) -> Option<Op> {
        let ts = self.user_plain_tables();
        if ts.is_empty() {
            return None;
        }
        let table = self.rng.pick(&ts).clone();
        let t = self.model.tables.get(&table).unwrap().clone();
        let n = if self.rng.chance(500) { 1 } else { 1 + self.rng.usize_below(self.max_rows_per_insert) };
        let reuse_only = self.rng.chance(180);
        let mut rows: Vec<Vec<Val>> = Vec::new();
        for _ in 0..n {
            for _attempt in 0..4 {
                let r = if reuse_only { self.gen_row_reusing(&t) } else { self.gen_row(&t) };
                let mut cand = rows.clone();
                cand.push(r);
                if self.model.plan_insert(&table, &cand).is_ok() {
                    rows = cand;
                    break;
                }
            }
        }
        if rows.is_empty() {
            return None;
        }
        let nt = self.model.plan_insert(&table, &rows).ok()?;
        self.model.tables.insert(table.clone(), nt);
        Some(Op::Insert { table, rows })
    }

    fn op_update(&mut self) -> Option<Op> {
        let ts = self.user_plain_tables();
        if ts.is_empty() {
            return None;
        }
        let table = self.rng.pick(&ts).clone();
        let t = self.model.tables.get(&table).unwrap().clone();
        let nsets = 1 + self.rng.usize_below(2.min(t.cols.len()));
        let mut sets = Vec::new();
        for _ in 0..nsets {
            // key columns are updated on purpose (C05)
            let ci = if self.rng.chance(300) {
                *self.rng.pick(&t.key_idx())
            } else {
                self.rng.usize_below(t.cols.len())
            };
            let mut v = self.gen_value(&t.cols[ci], t.cols[ci].key);
            if !t.rows.is_empty() && self.rng.chance(150) {
                // a value some row of the column already holds (for the rows
                // that hold it the assignment changes nothing)
                v = t.rows[self.rng.usize_below(t.rows.len())][ci].clone();
            }
            sets.push((t.cols[ci].name.clone(), v));
        }
        let cond = self.opt_cond(&t);
        // valid by construction except for key collisions, which the model
        // refuses; both outcomes are meaningful
        if let Ok(nt) = self.model.plan_update(&table, &sets, &cond) {
            self.model.tables.insert(table.clone(), nt);
        }
        Some(Op::Update { table, sets, cond })
    }

    fn op_delete(&mut self) -> Option<Op> {
        let ts = self.user_plain_tables();
        if ts.is_empty() {
            return None;
        }
        let table = self.rng.pick(&ts).clone();
        let t = self.model.tables.get(&table).unwrap().clone();
        let cond = if self.rng.chance(150) { None } else { Some(self.gen_cond(&t, 0)) };
        if let Ok(nt) = self.model.plan_delete(&table, &cond) {
            self.model.tables.insert(table.clone(), nt);
        }
        Some(Op::Delete { table, cond })
    }

    fn op_select(&mut self) -> Option<Op> {
        let mut ts = self.user_plain_tables();
        if self.rng.chance(100) {
            ts.push("_Validation".into());
            ts.push("_Columns".into());
        }
        ts.retain(|t| self.model.tables.contains_key(t));
        if ts.is_empty() {
            return None;
        }
        let table = self.rng.pick(&ts).clone();
        let t = self.model.tables.get(&table).unwrap().clone();
        let mut cols = Vec::new();
        if self.rng.chance(500) {
            let n = 1 + self.rng.usize_below(t.cols.len() + 1);
            for _ in 0..n {
                cols.push(t.cols[self.rng.usize_below(t.cols.len())].name.clone());
            }
        }
        let cond = self.opt_cond(&t);
        Some(Op::Select { table, cols, cond })
    }

    fn gen_stream_name(&mut self, allow_odd: bool) -> String {
        if !self.stream_names.is_empty() && self.rng.chance(650) {
            return self.rng.pick(&self.stream_names).clone();
        }
        let r = self.rng.below(100);
        let mut name = if r < 40 {
            let l = *self.rng.pick(&[1usize, 2, 3, 8, 15, 16, 31, 32, 61, 62]);
            let mut s = String::new();
            let full = self.rng.chance(400);
            for _ in 0..l {
                if full {
                    const FULL: &[u8] = b"0123456789ABCDEFGHIJKLMNOPQRSTUVWXYZabcdefghijklmnopqrstuvwxyz._";
                    s.push(FULL[self.rng.usize_below(64)] as char);
                } else {
                    s.push(*self.rng.pick(&['a', 'B', '0', '9', '.', '_', 'z', 'Q', 'm']));
                }
            }
            s
        } else if r < 60 {
            let l = 1 + self.rng.usize_below(20);
            let mut s = String::new();
            for _ in 0..l {
                s.push(*self.rng.pick(&['a', ' ', '(', ')', '-', 'b', '1', '~', '+', '$']));
            }
            s
        } else if r < 80 {
            let l = 1 + self.rng.usize_below(10);
            let mut s = String::new();
            for _ in 0..l {
                s.push(*self.rng.pick(&['é', 'É', 'ß', 'я', 'Я', '漢', 'a', '.', 'ǆ', 'ǅ', 'ａ', 'Ⅷ', 'ⓐ']));
            }
            s
        } else if r < 90 && !self.stream_names.is_empty() {
            // case variant of an existing name
            let b = self.rng.pick(&self.stream_names).clone();
            if self.rng.chance(500) {
                b.to_uppercase()
            } else {
                b.to_lowercase()
            }
        } else if self.rng.chance(400) && !self.model.tables.is_empty() {
            // a stream that merely shares its prefix with a table
            let ts: Vec<&String> = self.model.tables.keys().collect();
            let t = (*self.rng.pick(&ts)).clone();
            match self.rng.below(3) {
                0 => format!("{}.{}", t, self.rng.pick(&["ico", "AppIcon.ico", "x"])),
                1 => t,
                _ => format!("{}X.y", t),
            }
        } else if self.rng.chance(300) {
            // a stream named like a table that does not exist yet: the table
            // is created later, over the stream (streams and tables live in
            // separate name spaces of the container)
            format!("T{}", self.table_seq + 1 + self.rng.below(2) as u32)
        } else {
            format!("Icon.{}.ico", self.rng.below(50))
        };
        if allow_odd && self.rng.chance(120) {
            let odd = *self.rng.pick(&[
                '\u{3800}', '\u{3b3f}', '\u{47ff}', '\u{4800}', '\u{483f}', '\u{4840}', '/', '\\', ':', '!', '\u{5}', '\u{0}',
            ]);
            let mut at = self.rng.usize_below(name.chars().count() + 1);
            if self.rng.chance(300) {
                at = name.chars().count();
            }
            let mut cs: Vec<char> = name.chars().collect();
            cs.insert(at, odd);
            if at + 1 == cs.len() && self.rng.chance(300) {
                cs.push(odd);
            }
            name = cs.into_iter().collect();
        }
        if allow_odd && self.rng.chance(40) {
            // too long, with multi-byte characters at every byte offset class
            let c = *self.rng.pick(&['中', 'é', '😀', '\u{3a00}', 'ж']);
            let n = *self.rng.pick(&[17usize, 25, 32, 33, 40, 64, 65]);
            let lead = "ab"[..self.rng.usize_below(3)].to_string();
            name = format!("{}{}", lead, c.to_string().repeat(n));
            if self.rng.chance(300) {
                // 28..31 units, then a character that takes two
                let units = 28 + self.rng.usize_below(4);
                name = if self.rng.chance(500) { "-".repeat(units) } else { "Ab".repeat(units) };
                name.push('😀');
                if self.rng.chance(300) {
                    name.push_str("x");
                }
            }
        }
        if allow_odd && self.rng.chance(30) {
            name = self
                .rng
                .pick(&[
                    names::SUMMARY,
                    names::SIG,
                    names::SIG_EX,
                    names::DOCSUMMARY,
                    "_StringPool",
                    "MsiDigitalSignature.Cert1",
                    "MsiDigitalCertificate.Thumb",
                    "_Tables",
                    "\u{4840}_Tables",
                    "..",
                    ".",
                    "/",
                ])
                .to_string();
        }
        if self.stream_names.len() < 8 && names::stream_name_fits(&name) {
            self.stream_names.push(name.clone());
        }
        name
    }

    fn gen_wsteps(&mut self) -> Vec<WStep> {
        let base = *self.rng.pick(&[0u32, 1, 63, 64, 65, 500, 4095, 4096, 4097, 8191, 8192, 8193, 12000, 16384, 16385, 20000, 40000]);
        let len = if base > 100 && self.rng.chance(300) { base + self.rng.below(200) as u32 } else { base };
        let mut steps = Vec::new();
        let mut left = len;
        let mut written = 0u32;
        let chunk = *self.rng.pick(&[1u32, 7, 64, 1000, 4096, 8192, 100000]);
        while left > 0 {
            let n = if chunk >= left { left } else { 1 + self.rng.below(chunk as u64) as u32 };
            let n = n.min(left);
            steps.push(WStep::Write(n));
            written += n;
            left -= n;
            if steps.len() > 40 {
                steps.push(WStep::Write(left));
                written += left;
                left = 0;
            }
            if left > 0 && self.rng.chance(60) {
                steps.push(WStep::Flush);
            }
        }
        if written > 4 && self.rng.chance(250) {
            // seek back and overwrite a part
            let p = self.rng.below(written as u64) as u32;
            let n = 1 + self.rng.below((written - p) as u64 + 40) as u32;
            steps.push(WStep::Seek(p));
            steps.push(WStep::Write(n));
        }
        if self.explicit_stream_flush || self.rng.chance(400) {
            if self.rng.chance(200) {
                // a position query / seek as the last call before the flush
                let total: u32 = {
                    let mut c = Vec::new();
                    apply_wsteps(1, &steps, &mut c);
                    c.len() as u32
                };
                steps.push(WStep::Seek(if self.rng.chance(500) { total } else { self.rng.below(total as u64 + 1) as u32 }));
            }
            steps.push(WStep::Flush);
        }
        steps
    }

    fn own_handle_live(&self, name: &str) -> bool {
        let key = names::stream_key(name);
        self.handles_open.iter().any(|(_, n, _, _)| names::stream_key(n) == key)
    }

    fn op_wstream(&mut self, allow_odd: bool) -> Option<Op> {
        let name = self.gen_stream_name(allow_odd);
        if self.own_handle_live(&name) {
            return None;
        }
        self.serial += 1;
        let dseed = self.serial;
        let steps = self.gen_wsteps();
        if self.model.expect_write_stream(&name) == Expect::Ok {
            self.model.apply_write_stream(&name, dseed, &steps);
        }
        Some(Op::WriteStream { name, dseed, steps })
    }

    fn op_rstream(&mut self, allow_odd: bool) -> Option<Op> {
        let name = self.gen_stream_name(allow_odd);
        if self.own_handle_live(&name) {
            // what a reader sees while a writer still buffers is not specified
            return None;
        }
        let len = self.model.streams.get(&names::stream_key(&name)).map(|s| s.data.len()).unwrap_or(0) as u32;
        let mut steps = Vec::new();
        if self.rng.chance(500) {
            steps.push(RStep::ToEnd);
        } else {
            for _ in 0..1 + self.rng.below(4) {
                if self.rng.chance(400) && len > 0 {
                    steps.push(RStep::Seek(self.rng.below(len as u64 + 1) as u32));
                }
                steps.push(RStep::Read(*self.rng.pick(&[1u32, 10, 4096, 8192, 9000])));
            }
            if self.rng.chance(500) {
                steps.push(RStep::ToEnd);
            }
        }
        Some(Op::ReadStream { name, steps })
    }

    fn op_rmstream(&mut self, allow_odd: bool) -> Option<Op> {
        let name = self.gen_stream_name(allow_odd);
        if self.own_handle_live(&name) {
            return None;
        }
        if self.model.expect_existing_stream(&name) == Expect::Ok {
            self.model.apply_remove_stream(&name);
        }
        Some(Op::RemoveStream { name })
    }

    fn sum_string(&mut self) -> String {
        let mut n = *self.rng.pick(&[0usize, 1, 2, 3, 4, 5, 6, 7, 8, 15, 16, 17, 100, 1999]);
        if self.rng.chance(25) {
            // the summary stream outgrows the container's 8 KiB stream buffer
            n = *self.rng.pick(&[8000usize, 8010, 8030, 8192, 9000, 20000, 33000, 70001]) + self.rng.usize_below(16);
        }
        let mut s = String::new();
        for _ in 0..n {
            if !self.alphabet.is_empty() && self.rng.chance(300) {
                s.push(*self.rng.pick(&self.alphabet));
            } else {
                s.push(*self.rng.pick(&['a', 'b', ' ', 'Z', '0', ';', ',', '{', '}', '?']));
            }
        }
        if self.rng.chance(40) {
            // deliberately unrepresentable in some pages
            s.push(*self.rng.pick(&['☃', '€', 'ж', '漢']));
        }
        if self.rng.chance(12) && !s.is_empty() {
            // DEL: the last of the 128 ASCII characters, one byte in every page
            let at = self.rng.usize_below(s.chars().count() + 1);
            let mut cs: Vec<char> = s.chars().collect();
            cs.insert(at, '\u{7f}');
            s = cs.into_iter().collect();
        }
        if self.rng.chance(30) {
            for lead in ["ÿþ", "þÿ", "ï»¿"] {
                if lead.chars().all(|c| self.alphabet.contains(&c)) && self.rng.chance(500) {
                    s = format!("{}{}", lead, s);
                    break;
                }
            }
        }
        if self.rng.chance(30) && !s.is_empty() {
            // U+0000 is a character like any other to the setters
            let at = self.rng.usize_below(s.chars().count() + 1);
            let mut cs: Vec<char> = s.chars().collect();
            cs.insert(at, '\u{0}');
            s = cs.into_iter().collect();
        }
        s
    }

    fn op_summary(&mut self) -> Option<Op> {
        let f = *self.rng.pick(&[SumField::Title, SumField::Subject, SumField::Author, SumField::Comments, SumField::App]);
        let op = match self.rng.below(14) {
            0..=3 => SumOp::SetStr(f, self.sum_string()),
            4 => SumOp::ClearStr(f),
            5 => SumOp::SetUuid(((self.rng.next_u64() as u128) << 64) | self.rng.next_u64() as u128),
            6 => self.rng.pick(&[SumOp::ClearUuid, SumOp::ClearWordCount, SumOp::ClearTime, SumOp::ClearArch, SumOp::ClearLangs]).clone(),
            7 => SumOp::SetWordCount(*self.rng.pick(&[0, 1, 2, 3, -1, i32::MAX, i32::MIN, 8])),
            8 => {
                // between 1601-01-02 and the year ~60000
                let secs = self.rng.range(-11_644_380_000, 1_800_000_000_000);
                let secs = if self.rng.chance(300) { self.rng.range(-1000, 1000) } else { secs };
                let nanos = if self.rng.chance(500) { (self.rng.below(10_000_000) * 100) as u32 } else { self.rng.below(1_000_000_000) as u32 };
                // the Unix epoch itself and its neighbours, to the tick
                let (secs, nanos) = if self.rng.chance(60) {
                    (*self.rng.pick(&[0i64, 0, -1, 1]), *self.rng.pick(&[0u32, 0, 50, 99, 100, 999_999_900]))
                } else {
                    (secs, nanos)
                };
                SumOp::SetTime(secs, nanos)
            }
            9 => {
                let mut a = self.rng.pick(&["x64", "Intel", "Intel64", "Arm64", "", "x"]).to_string();
                if self.rng.chance(200) {
                    a = self.sum_string().replace(';', "");
                    a.truncate(a.char_indices().nth(20).map(|x| x.0).unwrap_or(a.len()));
                }
                SumOp::SetArch(a)
            }
            10 => {
                let n = self.rng.below(4);
                SumOp::SetLangs((0..n).map(|_| *self.rng.pick(&[0u16, 1033, 1031, 1041, 2057, 65535, 9])).collect())
            }
            11..=12 => SumOp::SetCodepage(*self.rng.pick(&self.cp_set)),
            _ => SumOp::ClearStr(f),
        };
        self.model.apply_summary(&op);
        Some(Op::Summary(op))
    }

    fn op_restart(&mut self) -> Op {
        let mode = match self.profile {
            Profile::Crash => *self.rng.pick(&[CloseMode::FlushCrash, CloseMode::FlushCrash, CloseMode::IntoInner, CloseMode::FlushDrop]),
            _ => *self.rng.pick(&[CloseMode::IntoInner, CloseMode::Drop, CloseMode::FlushDrop, CloseMode::FlushCrash]),
        };
        let mut edits = Vec::new();
        if matches!(self.profile, Profile::Streams | Profile::Foreign | Profile::ReadOnly | Profile::Reject) && self.rng.chance(150) {
            edits.push(Edit::AddSignature(self.rng.chance(500)));
            self.model.sig = true;
        }
        if matches!(self.profile, Profile::Streams) && self.rng.chance(60) {
            edits.push(Edit::AddDocSummary);
        }
        self.model.on_save();
        self.handles_open.clear();
        Op::Restart { mode, edits }
    }

    // ------------------------------------------------------------ invalid ops

    fn op_invalid(&mut self) -> Option<Op> {
        let ts = self.user_plain_tables();
        let r = self.rng.below(100);
        if r < 30 || ts.is_empty() {
            // create_table variants, early and late failures
            let (mut name, mut cols) = self.gen_plain_table(5);
            match self.rng.below(17) {
                0 => name = "9bad".into(),
                1 => name = String::new(),
                2 => cols.clear(),
                3 => {
                    let c = cols[0].clone();
                    cols = (0..33).map(|i| { let mut d = c.clone(); d.name = format!("K{}", i); d }).collect();
                }
                4 => {
                    for c in cols.iter_mut() {
                        c.key = false;
                    }
                }
                5 => {
                    let mut d = cols[0].clone();
                    d.key = false;
                    cols.push(d);
                }
                6 => {
                    if let Some(t) = ts.first() {
                        name = t.clone();
                    } else {
                        name = "_Validation".into();
                    }
                }
                7 => cols[0].name = "has space".into(),
                // ---- late failures: pass the name checks, not storable
                8 => {
                    let l = *self.rng.pick(&[33usize, 40, 60]);
                    cols.last_mut().unwrap().name = self.ident(l);
                }
                9 => {
                    let l = *self.rng.pick(&[33usize, 40, 59]);
                    name = self.ident(l);
                }
                10 => {
                    let w = *self.rng.pick(&[256u32, 257, 300, 511, 512, 32767, 32768, 65535]);
                    let i = self.rng.usize_below(cols.len());
                    cols[i].ty = CType::Str(w);
                    cols[i].range = None;
                }
                11 => {
                    let i = self.rng.usize_below(cols.len());
                    cols[i].ty = CType::Str(0);
                    cols[i].range = None;
                    cols[i].category = None;
                    cols[i].enums = match self.rng.below(3) {
                        0 => vec!["a;b".into(), "c".into()],
                        1 => vec!["".into()],
                        _ => vec!["x".repeat(200), "y".repeat(100)],
                    };
                }
                12 => {
                    let i = self.rng.usize_below(cols.len());
                    cols[i].ty = CType::I32;
                    cols[i].category = None;
                    cols[i].enums.clear();
                    cols[i].range = Some((i32::MIN, 5));
                }
                13 => {
                    let i = self.rng.usize_below(cols.len());
                    cols[i].fk = Some(match self.rng.below(4) {
                        0 => ("Other".into(), 0),
                        1 => ("Other".into(), 33),
                        2 => ("9x".into(), 1),
                        _ => ("Other".into(), 40000),
                    });
                }
                14 => {
                    // valid head, bad tail: many columns, the last one too long
                    let c = cols[0].clone();
                    cols = (0..6).map(|i| { let mut d = c.clone(); d.name = format!("K{}", i); d.key = i == 0; d }).collect();
                    cols.last_mut().unwrap().name = self.ident(45);
                }
                15 => {
                    // the pool's own stream names: with a definition that is fine otherwise, or
                    // one that only the late checks refuse
                    name = self.rng.pick(&["_StringData", "_StringPool"]).to_string();
                    if self.rng.chance(400) {
                        let i = self.rng.usize_below(cols.len());
                        cols[i].ty = CType::I32;
                        cols[i].category = None;
                        cols[i].enums.clear();
                        cols[i].range = Some((i32::MIN, 5));
                    }
                }
                _ => name = "_Tables".into(),
            }
            if self.model.expect_create_table(&name, &cols) == Expect::Ok {
                self.model.apply_create_table(&name, &cols);
            }
            return Some(Op::CreateTable { name, cols });
        }
        let table = self.rng.pick(&ts).clone();
        let t = self.model.tables.get(&table).unwrap().clone();
        if r < 65 {
            // insert variants; bias to late discovery (last row bad)
            let n = 1 + self.rng.usize_below(4);
            let mut rows: Vec<Vec<Val>> = Vec::new();
            for _ in 0..n {
                for _a in 0..4 {
                    let row = self.gen_row(&t);
                    let mut cand = rows.clone();
                    cand.push(row);
                    if self.model.plan_insert(&table, &cand).is_ok() {
                        rows = cand;
                        break;
                    }
                }
            }
            let mut bad = self.gen_row(&t);
            let mut ci = self.rng.usize_below(t.cols.len());
            let mut variant = self.rng.below(10);
            // a column whose enumeration lists a value that its width does not admit: ask for it
            if let Some(i) = (0..t.cols.len()).find(|&i| t.cols[i].enums.iter().any(|e| !value_valid(&t.cols[i], &Val::Str(e.to_string())))) {
                if self.rng.chance(500) {
                    ci = i;
                    variant = 8;
                }
            }
            let c = &t.cols[ci];
            match variant {
                9 => {
                    // a value that occurs, validly, in another column of this batch
                    let mut done = false;
                    for cj in 0..t.cols.len() {
                        if cj == ci {
                            continue;
                        }
                        let v = rows.first().map(|r| r[cj].clone()).unwrap_or_else(|| bad[cj].clone());
                        if !value_valid(c, &v) {
                            bad[ci] = v;
                            done = true;
                            break;
                        }
                    }
                    if !done {
                        bad.pop();
                    }
                }
                0 => {
                    bad.pop();
                }
                1 => bad.push(Val::Int(1)),
                2 => {
                    bad[ci] = match c.ty {
                        CType::I16 => Val::Int(*self.rng.pick(&[32768, -32768, 70000])),
                        CType::I32 => Val::Int(i32::MIN),
                        CType::Str(_) => Val::Int(5),
                    }
                }
                3 => {
                    bad[ci] = match c.ty {
                        CType::Str(_) => Val::Int(0),
                        _ => Val::Str("12".into()),
                    }
                }
                4 => {
                    // null where not allowed (or a type error if nullable)
                    bad[ci] = if c.nullable { if c.is_str() { Val::Int(1) } else { Val::Str("z".into()) } } else { Val::Null };
                }
                5 => {
                    bad[ci] = match c.ty {
                        CType::Str(w) if w > 0 => Val::Str("W".repeat(w as usize + 1)),
                        CType::Str(_) => Val::Int(3),
                        _ => match c.range {
                            // inside the declared range, outside what the cell can hold
                            Some((_, hi)) if c.ty == CType::I16 && hi > 32767 && self.rng.chance(600) => Val::Int(*self.rng.pick(&[32768, hi])),
                            Some((lo, _)) if c.ty == CType::I16 && lo <= -32768 && self.rng.chance(600) => Val::Int(*self.rng.pick(&[-32768, lo])),
                            Some((_, hi)) if hi < i32::MAX => Val::Int(hi + 1),
                            _ => Val::Str("r".into()),
                        },
                    }
                }
                6 => {
                    // duplicate of an existing row's key
                    if !t.rows.is_empty() {
                        let ex = t.rows[self.rng.usize_below(t.rows.len())].clone();
                        for &k in t.key_idx().iter() {
                            bad[k] = ex[k].clone();
                        }
                    } else if let Some(first) = rows.first() {
                        bad = first.clone();
                    } else {
                        bad.pop();
                    }
                }
                7 => {
                    // duplicate of an earlier row in this batch
                    if let Some(first) = rows.first() {
                        for &k in t.key_idx().iter() {
                            bad[k] = first[k].clone();
                        }
                    } else {
                        bad.push(Val::Null);
                    }
                }
                _ => {
                    bad[ci] = match (&c.category, c.is_str()) {
                        (Some(cat), true) if cat == "Identifier" => Val::Str(self.rng.pick(&["has space", "Gr\u{f6}\u{df}e", "Item\u{663}", "a\u{e9}"]).to_string()),
                        (Some(cat), true) if cat == "UpperCase" => Val::Str("lower".into()),
                        (Some(cat), true) if cat == "LowerCase" => Val::Str("UPPER".into()),
                        (_, true) if !c.enums.is_empty() => match c.enums.iter().find(|e| !value_valid(c, &Val::Str(e.to_string()))) {
                            // listed in the enumeration, yet too long for the column
                            Some(e) => Val::Str(e.clone()),
                            None => Val::Str("notInEnum".into()),
                        },
                        (_, true) => Val::Int(9),
                        _ => Val::Str("s".into()),
                    }
                }
            }
            rows.push(bad);
            if self.rng.chance(150) {
                let l = rows.len();
                rows.swap(0, l - 1);
            }
            if let Ok(nt) = self.model.plan_insert(&table, &rows) {
                self.model.tables.insert(table.clone(), nt);
            }
            return Some(Op::Insert { table, rows });
        }
        match self.rng.below(9) {
            0 => Some(Op::Insert { table: "NoSuchTable".into(), rows: vec![vec![Val::Int(1)]] }),
            1 => Some(Op::Update { table: table.clone(), sets: vec![("Nope".into(), Val::Int(1))], cond: None }),
            2 => {
                let c = &t.cols[self.rng.usize_below(t.cols.len())];
                let v = if c.is_str() { Val::Int(1) } else { Val::Str("x".into()) };
                // valid first assignment, invalid second (now and then to the very same column)
                let mut sets = Vec::new();
                let c0 = if self.rng.chance(350) { c } else { &t.cols[t.cols.len() - 1] };
                if !c0.key {
                    sets.push((c0.name.clone(), self.gen_value(c0, false)));
                }
                sets.push((c.name.clone(), v));
                Some(Op::Update { table, sets, cond: None })
            }
            3 => Some(Op::Update {
                table,
                sets: vec![(t.cols[0].name.clone(), self.gen_value(&t.cols[0], true))],
                cond: Some(Cond::Cmp("Nope".into(), CmpOp::Eq, Val::Int(1))),
            }),
            4 => Some(Op::Delete { table, cond: Some(Cond::Truthy("Missing".into())) }),
            5 => Some(Op::Delete { table: "NoSuchTable".into(), cond: None }),
            6 => Some(Op::Select { table, cols: vec!["Nope".into()], cond: None }),
            7 => Some(Op::DropTable {
                name: self.rng.pick(&["_Tables", "_Columns", "_Validation", "NoSuch", "9bad", "", "T1", "T2", "T3", "T9"]).to_string(),
            }),
            _ => Some(Op::RemoveStream { name: "NoSuchStream".into() }),
        }
    }

    /// Two tables whose "table.column" spellings coincide although the
    /// (table, column) pairs differ: Lib + Core.Id and Lib.Core + Id.
    fn macro_dotted_names(&mut self) {
        self.table_seq += 1;
        let a = format!("Lib{}", self.table_seq);
        let (b, c) = (self.rng.pick(&["Core", "X", "a1"]).to_string(), self.rng.pick(&["Id", "Key", "k"]).to_string());
        let mk = |name: &str, key: bool, cat: bool| {
            let mut col = ColSpec::new(name, CType::Str(20));
            col.key = key;
            col.nullable = !key;
            if cat {
                col.category = Some("Identifier".into());
            }
            col
        };
        let t1 = (a.clone(), vec![mk("K", true, false), mk(&format!("{}.{}", b, c), false, true)]);
        let t2 = (format!("{}.{}", a, b), vec![mk("K", true, false), mk(&c, false, false)]);
        for (name, cols) in [t1, t2] {
            if self.model.expect_create_table(&name, &cols) == Expect::Ok {
                self.model.apply_create_table(&name, &cols);
                self.push(Op::CreateTable { name, cols });
            }
        }
        // ... and a column whose name is another column's name qualified with the table's own
        // name (the way joined rows name their columns), with different rules
        self.table_seq += 1;
        let m = format!("Med{}", self.table_seq);
        let mut narrow = ColSpec::new(&format!("{}.Size", m), CType::I16).nullable();
        narrow.range = Some((0, 10));
        let cols = vec![ColSpec::new("K", CType::I16).key(), ColSpec::new("Size", CType::I32).nullable(), narrow];
        if self.model.expect_create_table(&m, &cols) == Expect::Ok {
            self.model.apply_create_table(&m, &cols);
            self.push(Op::CreateTable { name: m.clone(), cols });
            let rows = vec![vec![Val::Int(1), Val::Int(70000), Val::Int(3)], vec![Val::Int(2), Val::Null, Val::Int(10)]];
            if let Ok(nt) = self.model.plan_insert(&m, &rows) {
                self.model.tables.insert(m.clone(), nt);
                self.push(Op::Insert { table: m.clone(), rows });
            }
            // valid for "Size", not for "<table>.Size": must be refused
            let sets = vec![(format!("{}.Size", m), Val::Int(*self.rng.pick(&[500, 11, 70000])))];
            self.push(Op::Update { table: m.clone(), sets, cond: None });
            let sets = vec![("Size".to_string(), Val::Int(500))];
            if let Ok(nt) = self.model.plan_update(&m, &sets, &None) {
                self.model.tables.insert(m.clone(), nt);
                self.push(Op::Update { table: m, sets, cond: None });
            }
            self.push(Op::Observe);
        }
    }

    // ------------------------------------------------------------ read-only sessions

    fn read_only_session(&mut self) {
        let n = 2 + self.rng.usize_below(14);
        for _ in 0..n {
            let op = match self.rng.below(10) {
                0..=3 => self.op_select(),
                4 => {
                    // selects that fail are read operations too
                    let ts = self.user_plain_tables();
                    Some(Op::Select {
                        table: if ts.is_empty() || self.rng.chance(300) { "NoSuchTable".into() } else { self.rng.pick(&ts).clone() },
                        cols: vec!["NoSuchColumn".into()],
                        cond: None,
                    })
                }
                5..=6 => self.op_rstream(true),
                7 => {
                    let mut ts: Vec<String> = self.model.tables.keys().cloned().collect();
                    ts.push("Missing".into());
                    let l = self.rng.pick(&ts).clone();
                    let r = self.rng.pick(&ts).clone();
                    if l == r {
                        None
                    } else {
                        let col = |g: &mut Gen, t: &str| -> String {
                            match g.model.tables.get(t) {
                                Some(tm) if g.rng.chance(900) => tm.cols[g.rng.usize_below(tm.cols.len())].name.clone(),
                                _ => "Nope".into(),
                            }
                        };
                        let lcol = col(self, &l);
                        let rcol = col(self, &r);
                        Some(Op::Join { left: l, right: r, lcol, rcol, outer: self.rng.chance(500) })
                    }
                }
                8 => Some(Op::Observe),
                _ => {
                    if self.rng.chance(300) {
                        Some(Op::Flush)
                    } else {
                        Some(Op::Observe)
                    }
                }
            };
            if let Some(op) = op {
                self.push(op);
            }
        }
        let r = self.op_restart();
        self.push(r);
    }

    // ------------------------------------------------------------ choreographies

    /// save; a statement that only bumps reference counts; save; release one
    /// of the sharers; look at the others.  (Per-subsystem "modified" flags
    /// make quiet sessions like this one a place where saving can go wrong.)
    fn macro_quiet_bump(&mut self) {
        let ts = self.user_plain_tables();
        if ts.is_empty() {
            return;
        }
        let table = self.rng.pick(&ts).clone();
        let t = self.model.tables.get(&table).unwrap().clone();
        if t.rows.is_empty() || !t.cols.iter().any(|c| c.is_str()) {
            return;
        }
        let r1 = self.op_restart();
        self.push(r1);
        let t = self.model.tables.get(&table).unwrap().clone();
        let mut done = false;
        if self.rng.chance(600) {
            for _ in 0..6 {
                let row = self.gen_row_reusing(&t);
                if let Ok(nt) = self.model.plan_insert(&table, &[row.clone()]) {
                    self.model.tables.insert(table.clone(), nt);
                    self.push(Op::Insert { table: table.clone(), rows: vec![row] });
                    done = true;
                    break;
                }
            }
        } else {
            // update a non-key string cell to a string that exists elsewhere
            let cands: Vec<usize> = (0..t.cols.len()).filter(|&i| t.cols[i].is_str() && !t.cols[i].key).collect();
            if let Some(&ci) = cands.first() {
                let donor = t.rows[self.rng.usize_below(t.rows.len())][ci].clone();
                if matches!(donor, Val::Str(_)) {
                    let k0 = t.key_idx()[0];
                    let target = t.rows[self.rng.usize_below(t.rows.len())][k0].clone();
                    let cond = Some(Cond::Cmp(t.cols[k0].name.clone(), CmpOp::Eq, target));
                    let sets = vec![(t.cols[ci].name.clone(), donor)];
                    if let Ok(nt) = self.model.plan_update(&table, &sets, &cond) {
                        self.model.tables.insert(table.clone(), nt);
                        self.push(Op::Update { table: table.clone(), sets, cond });
                        done = true;
                    }
                }
            }
        }
        if !done {
            return;
        }
        let r2 = self.op_restart();
        self.push(r2);
        let t = self.model.tables.get(&table).unwrap().clone();
        if !t.rows.is_empty() {
            let k0 = t.key_idx()[0];
            let victim = t.rows[self.rng.usize_below(t.rows.len())][k0].clone();
            let cond = Some(Cond::Cmp(t.cols[k0].name.clone(), CmpOp::Eq, victim));
            if let Ok(nt) = self.model.plan_delete(&table, &cond) {
                self.model.tables.insert(table.clone(), nt);
                self.push(Op::Delete { table: table.clone(), cond });
            }
        }
        self.push(Op::Observe);
    }

    /// A table whose stream outgrows the container's thresholds (4,096 bytes: mini
    /// stream to regular sectors; 8,192 bytes: the stream buffer), filled in two
    /// interleaved batches, then cut back below them again.
    fn macro_bulk(&mut self) {
        if self.model.tables.keys().filter(|n| n.starts_with("Bk")).count() >= 1 {
            return;
        }
        self.serial += 1;
        let name = format!("Bk{}", self.serial);
        let with_str = self.rng.chance(400);
        let mut cols = vec![ColSpec::new("K", if self.rng.chance(500) { CType::I32 } else { CType::I16 }).key(), ColSpec::new("V", CType::I16).nullable()];
        if with_str {
            cols.push(ColSpec::new("S", CType::Str(0)).nullable());
        }
        if self.model.expect_create_table(&name, &cols) != Expect::Ok {
            return;
        }
        self.model.apply_create_table(&name, &cols);
        self.push(Op::CreateTable { name: name.clone(), cols });
        let n = *self.rng.pick(&[600i32, 700, 1100, 1400, 2100, 2800]);
        let tok = self.token(false);
        let mk = |i: i32, with_str: bool, tok: &str| {
            let mut r = vec![Val::Int(i), if i % 7 == 0 { Val::Null } else { Val::Int(i % 1000) }];
            if with_str {
                r.push(if i % 5 == 0 { Val::Null } else { Val::Str(format!("{}{}", tok, i % 3)) });
            }
            r
        };
        for phase in 0..2 {
            let rows: Vec<Vec<Val>> = (0..n).filter(|i| i % 2 == phase).map(|i| mk(i, with_str, &tok)).collect();
            match self.model.plan_insert(&name, &rows) {
                Ok(nt) => {
                    self.model.tables.insert(name.clone(), nt);
                    self.push(Op::Insert { table: name.clone(), rows });
                }
                Err(_) => return,
            }
            if self.rng.chance(500) {
                let r = self.op_restart();
                self.push(r);
            }
        }
        if self.rng.chance(700) {
            let cut = *self.rng.pick(&[100i32, 500, 680, 1365]);
            let cond = Some(Cond::Cmp("K".into(), CmpOp::Ge, Val::Int(cut)));
            if let Ok(nt) = self.model.plan_delete(&name, &cond) {
                self.model.tables.insert(name.clone(), nt);
                self.push(Op::Delete { table: name.clone(), cond });
            }
            let r = self.op_restart();
            self.push(r);
        }
        self.push(Op::Observe);
    }

    /// Text the database code page cannot encode is accepted (and stored with
    /// replacement characters at the next save); here it is put into a cell and
    /// taken out again before anything is saved, so the model stays exact.
    fn macro_unencodable(&mut self) {
        let cp = self.model.db_cp;
        if cp == 65001 || cp == 0 {
            return;
        }
        let bad: Vec<char> = ['☃', '漢', 'ж', '€', 'ü', '😀'].iter().cloned().filter(|c| !crate::cp::roundtrips(cp, *c)).collect();
        if bad.is_empty() {
            return;
        }
        let ts = self.user_plain_tables();
        if ts.is_empty() {
            return;
        }
        let table = self.rng.pick(&ts).clone();
        let t = self.model.tables.get(&table).unwrap().clone();
        let cands: Vec<usize> = (0..t.cols.len())
            .filter(|&i| {
                let c = &t.cols[i];
                !c.key && c.category.is_none() && c.enums.is_empty() && matches!(c.ty, CType::Str(w) if w == 0 || w >= 16)
            })
            .collect();
        if cands.is_empty() || t.rows.is_empty() {
            return;
        }
        let ci = *self.rng.pick(&cands);
        let tok = self.token(false);
        let v = Val::Str(format!("{}{}{}", tok, self.rng.pick(&bad), self.rng.pick(&bad)));
        if self.rng.chance(400) {
            // a batch that is refused because of its *last* row, after a valid row with such text
            for _ in 0..4 {
                let mut r1 = self.gen_row(&t);
                r1[ci] = v.clone();
                let dup = t.rows[self.rng.usize_below(t.rows.len())].clone();
                let rows = vec![r1.clone(), dup];
                if self.model.plan_insert(&table, &[r1]).is_ok() && self.model.plan_insert(&table, &rows).is_err() {
                    self.push(Op::Insert { table, rows });
                    self.push(Op::Observe);
                    return;
                }
            }
            return;
        }
        let k0 = t.key_idx()[0];
        let target = t.rows[self.rng.usize_below(t.rows.len())][k0].clone();
        let cond = Some(Cond::Cmp(t.cols[k0].name.clone(), CmpOp::Eq, target));
        let sets = vec![(t.cols[ci].name.clone(), v)];
        match self.model.plan_update(&table, &sets, &cond) {
            Ok(nt) => {
                self.model.tables.insert(table.clone(), nt);
                self.push(Op::Update { table: table.clone(), sets, cond: cond.clone() });
            }
            Err(_) => return,
        }
        self.push(Op::Observe);
        let clean = if t.cols[ci].nullable && self.rng.chance(500) { Val::Null } else { Val::Str(self.token(false)) };
        let sets = vec![(t.cols[ci].name.clone(), clean)];
        if let Ok(nt) = self.model.plan_update(&table, &sets, &cond) {
            self.model.tables.insert(table.clone(), nt);
            self.push(Op::Update { table, sets, cond });
        }
    }

    /// A save window whose only change is the removal of a table that never held a row.
    fn macro_quiet_drop(&mut self) {
        self.table_seq += 1;
        let name = format!("Qd{}", self.table_seq);
        let cols = vec![ColSpec::new("Key", CType::Str(20)).key(), ColSpec::new(&format!("Val{}", self.table_seq), CType::I16).nullable()];
        if self.model.expect_create_table(&name, &cols) != Expect::Ok {
            return;
        }
        self.model.apply_create_table(&name, &cols);
        self.push(Op::CreateTable { name: name.clone(), cols });
        let r1 = self.op_restart();
        self.push(r1);
        if self.model.expect_drop_table(&name) != Expect::Ok {
            return;
        }
        self.model.apply_drop_table(&name);
        self.push(Op::DropTable { name });
        let r2 = self.op_restart();
        self.push(r2);
        self.push(Op::Observe);
    }

    /// Names that differ only in letter case are different names: two tables, and
    /// two columns of one table; then statements that name the later one.
    fn macro_case_names(&mut self) {
        self.table_seq += 1;
        let n = self.table_seq;
        let (a, b) = (format!("Widget{}", n), format!("WIDGET{}", n));
        let cols = vec![
            ColSpec::new("K", CType::I16).key(),
            ColSpec::new("Size", CType::I16).nullable(),
            ColSpec::new("SIZE", CType::I16).nullable(),
            ColSpec::new("size", CType::Str(0)).nullable(),
        ];
        for t in [&a, &b] {
            if self.model.expect_create_table(t, &cols) != Expect::Ok {
                return;
            }
            self.model.apply_create_table(t, &cols);
            self.push(Op::CreateTable { name: t.clone(), cols: cols.clone() });
            let tok = self.token(false);
            let rows: Vec<Vec<Val>> = (1..=3).map(|i| vec![Val::Int(i), Val::Int(10 * i), Val::Int(100 * i), Val::Str(format!("{}{}", tok, i))]).collect();
            if let Ok(nt) = self.model.plan_insert(t, &rows) {
                self.model.tables.insert(t.clone(), nt);
                self.push(Op::Insert { table: t.clone(), rows });
            }
        }
        let sets = vec![("SIZE".to_string(), Val::Int(7))];
        let cond = Some(Cond::Cmp("SIZE".into(), CmpOp::Ge, Val::Int(200)));
        if let Ok(nt) = self.model.plan_update(&b, &sets, &cond) {
            self.model.tables.insert(b.clone(), nt);
            self.push(Op::Update { table: b.clone(), sets, cond });
        }
        self.push(Op::Select { table: a.clone(), cols: vec!["size".into(), "SIZE".into()], cond: Some(Cond::Cmp("Size".into(), CmpOp::Lt, Val::Int(25))) });
        if self.rng.chance(500) {
            let r = self.op_restart();
            self.push(r);
        }
        let victim = if self.rng.chance(500) { a } else { b };
        if self.model.expect_drop_table(&victim) == Expect::Ok {
            self.model.apply_drop_table(&victim);
            self.push(Op::DropTable { name: victim });
        }
        self.push(Op::Observe);
    }

    /// A catalog whose own streams outgrow 8 KiB: a dozen tables of 32 columns.
    fn macro_big_catalog(&mut self) {
        if self.model.tables.len() > 8 {
            return;
        }
        let nt = 12 + self.rng.usize_below(3);
        for _ in 0..nt {
            self.table_seq += 1;
            let name = format!("Wide{}", self.table_seq);
            let cols: Vec<ColSpec> = (0..32)
                .map(|i| {
                    let mut c = ColSpec::new(&format!("Col{}x{}", i, self.table_seq), if i % 2 == 0 { CType::Str(40) } else { CType::I16 });
                    c.key = i == 0;
                    c.nullable = i != 0;
                    if i % 2 == 0 {
                        c.category = Some("Identifier".into());
                    } else if i % 5 == 0 {
                        c.range = Some((1, 100));
                    }
                    c
                })
                .collect();
            if self.model.expect_create_table(&name, &cols) != Expect::Ok {
                return;
            }
            self.model.apply_create_table(&name, &cols);
            self.push(Op::CreateTable { name, cols });
        }
        let r = self.op_restart();
        self.push(r);
        self.push(Op::Observe);
    }

    /// A table with a binary-data column, and streams named like its rows' data streams.
    fn macro_binary_table(&mut self) {
        self.table_seq += 1;
        let name = format!("Bin{}", self.table_seq);
        let mut k = ColSpec::new("Name", CType::Str(72)).key();
        k.category = Some("Identifier".into());
        let mut dcol = ColSpec::new("Data", CType::Str(0));
        dcol.category = Some("Binary".into());
        dcol.nullable = true;
        let cols = vec![k, dcol];
        match self.model.expect_create_table(&name, &cols) {
            Expect::Err => return,
            _ => {}
        }
        // (outcome left open by the model: the executor applies it if accepted)
        if self.model.expect_create_table(&name, &cols) == Expect::Ok {
            self.model.apply_create_table(&name, &cols);
        }
        self.push(Op::CreateTable { name: name.clone(), cols });
        for suffix in ["Banner", "Logo.ico"] {
            let sname = format!("{}.{}", name, suffix);
            self.serial += 1;
            let dseed = self.serial;
            let steps = vec![WStep::Write(300 + self.rng.below(5000) as u32), WStep::Flush];
            if self.model.expect_write_stream(&sname) == Expect::Ok {
                self.model.apply_write_stream(&sname, dseed, &steps);
                if !self.stream_names.contains(&sname) {
                    self.stream_names.push(sname.clone());
                }
            }
            self.push(Op::WriteStream { name: sname, dseed, steps });
        }
    }

    /// Change a summary value, save, put back exactly what the session started with, close.
    fn macro_summary_restore(&mut self) {
        let r1 = self.op_restart();
        self.push(r1);
        let f = *self.rng.pick(&[SumField::Title, SumField::Subject, SumField::Author, SumField::Comments, SumField::App]);
        let before: Option<String> = match self.model.summary.strs.get(&field_idx(f)) {
            None => None,
            Some(SStr::Exact(s)) => Some(s.clone()),
            Some(_) => return,
        };
        if before.as_deref().map(|s| !crate::cp::representable(self.model.summary.codepage, s)).unwrap_or(false) {
            return;
        }
        let tok = self.token(false);
        let op = SumOp::SetStr(f, format!("{} interim", tok));
        self.model.apply_summary(&op);
        self.push(Op::Summary(op));
        self.push(Op::Flush);
        self.model.on_save();
        let back = match before {
            Some(s) => SumOp::SetStr(f, s),
            None => SumOp::ClearStr(f),
        };
        self.model.apply_summary(&back);
        self.push(Op::Summary(back));
        let r2 = self.op_restart();
        self.push(r2);
        self.push(Op::Observe);
    }

    /// Table N and stream N are different things: a statement on the table directly followed
    /// by a stream call under the same name, and the other way round.
    fn macro_same_name(&mut self) {
        let ts = self.user_plain_tables();
        if ts.is_empty() {
            return;
        }
        let n = self.rng.pick(&ts).clone();
        if self.own_handle_live(&n) {
            return;
        }
        let t = self.model.tables.get(&n).unwrap().clone();
        let sel = Op::Select { table: n.clone(), cols: vec![t.cols[0].name.clone()], cond: None };
        self.push(sel.clone());
        self.serial += 1;
        let dseed = self.serial;
        let steps = vec![WStep::Write(40 + self.rng.below(300) as u32), WStep::Flush];
        if self.model.expect_write_stream(&n) == Expect::Ok {
            self.model.apply_write_stream(&n, dseed, &steps);
            if !self.stream_names.contains(&n) {
                self.stream_names.push(n.clone());
            }
        }
        self.push(Op::WriteStream { name: n.clone(), dseed, steps });
        self.push(sel.clone());
        self.push(Op::ReadStream { name: n.clone(), steps: vec![RStep::ToEnd] });
        let row = self.gen_row(&t);
        if let Ok(nt) = self.model.plan_insert(&n, &[row.clone()]) {
            self.model.tables.insert(n.clone(), nt);
            self.push(Op::Insert { table: n.clone(), rows: vec![row] });
        }
        if self.rng.chance(500) {
            if self.model.expect_existing_stream(&n) == Expect::Ok {
                self.model.apply_remove_stream(&n);
            }
            self.push(Op::RemoveStream { name: n.clone() });
        }
        self.push(Op::Observe);
    }

    /// A save window whose only change is one summary setter (per-setter dirty
    /// tracking shows here and nowhere else).
    fn macro_single_summary(&mut self) {
        let r1 = self.op_restart();
        self.push(r1);
        if let Some(op) = self.op_summary() {
            self.push(op);
        }
        let r2 = self.op_restart();
        self.push(r2);
        self.push(Op::Observe);
    }

    // ------------------------------------------------------------ live handles

    fn op_handle(&mut self) -> Option<Op> {
        let can_open = self.handles_open.len() < 3;
        if can_open && (self.handles_open.is_empty() || self.rng.chance(300)) {
            let name = self.gen_stream_name(false);
            if self.model.expect_write_stream(&name) != Expect::Ok {
                return None;
            }
            let key = names::stream_key(&name);
            if self.handles_open.iter().any(|(_, n, _, _)| names::stream_key(n) == key) {
                return None;
            }
            let h = (0u8..8).find(|h| !self.handles_open.iter().any(|(x, _, _, _)| x == h))?;
            self.serial += 1;
            let dseed = self.serial;
            self.model.apply_write_stream(&name, dseed, &[]);
            self.handles_open.push((h, name.clone(), dseed, Vec::new()));
            return Some(Op::OpenWriter { h, name, dseed });
        }
        if self.handles_open.is_empty() {
            return None;
        }
        let i = self.rng.usize_below(self.handles_open.len());
        if self.rng.chance(250) {
            let (h, ..) = self.handles_open.remove(i);
            return Some(Op::DropWriter { h });
        }
        let written: u32 = self.handles_open[i].3.iter().map(|s| if let WStep::Write(n) = s { *n } else { 0 }).sum();
        let step = match self.rng.below(10) {
            0 => WStep::Flush,
            1 if written > 0 && !self.handles_open[i].3.iter().any(|s| matches!(s, WStep::Seek(_))) => {
                WStep::Seek(self.rng.below(written as u64 + 1) as u32)
            }
            _ => WStep::Write(*self.rng.pick(&[1u32, 10, 100, 1000, 4096, 4097, 8192, 9000, 16385, 20000])),
        };
        let (h, name, dseed, steps) = &mut self.handles_open[i];
        steps.push(step.clone());
        let (h, name, dseed, steps) = (*h, name.clone(), *dseed, steps.clone());
        self.model.apply_write_stream(&name, dseed, &steps);
        Some(Op::WriterStep { h, step })
    }

    // ------------------------------------------------------------ main loop

    fn one_op(&mut self) {
        if self.profile == Profile::Handles && self.rng.chance(400) {
            if let Some(op) = self.op_handle() {
                self.push(op);
                return;
            }
        }
        if self.profile == Profile::Schema && self.rng.chance(12) {
            self.macro_dotted_names();
            return;
        }
        if matches!(self.profile, Profile::Clean | Profile::Benign | Profile::Crash | Profile::Reject | Profile::Schema) && self.rng.chance(35) {
            self.macro_quiet_bump();
            return;
        }
        if self.handles_open.is_empty() {
            let p = self.profile;
            if matches!(p, Profile::Clean | Profile::Crash | Profile::Reject) && self.rng.chance(6) {
                self.macro_dotted_names();
                return;
            }
            if matches!(p, Profile::Clean | Profile::Crash | Profile::Reject | Profile::Foreign | Profile::Schema) && self.rng.chance(10) {
                self.macro_quiet_drop();
                return;
            }
            if matches!(p, Profile::Clean | Profile::Reject | Profile::Foreign | Profile::Schema | Profile::Benign) && self.rng.chance(8) {
                self.macro_case_names();
                return;
            }
            if p == Profile::Schema && self.rng.chance(4) {
                self.macro_big_catalog();
                return;
            }
            if p == Profile::Schema && self.rng.chance(5) {
                self.macro_bulk();
                return;
            }
            if matches!(p, Profile::ReadOnly | Profile::Streams | Profile::Foreign) && self.rng.chance(12) {
                self.macro_binary_table();
                return;
            }
            if matches!(p, Profile::Streams | Profile::Foreign | Profile::Clean) && self.rng.chance(if p == Profile::Streams { 25 } else { 6 }) {
                self.macro_same_name();
                return;
            }
        }
        if matches!(self.profile, Profile::Reject | Profile::Clean | Profile::Foreign) && self.handles_open.is_empty() && self.rng.chance(25) {
            self.macro_unencodable();
            return;
        }
        if matches!(self.profile, Profile::Summary | Profile::Foreign) && self.handles_open.is_empty() && self.rng.chance(if self.profile == Profile::Summary { 25 } else { 5 }) {
            self.macro_summary_restore();
            return;
        }
        if matches!(self.profile, Profile::Summary | Profile::Clean | Profile::Foreign | Profile::Crash) && self.handles_open.is_empty() && self.rng.chance(if self.profile == Profile::Summary { 40 } else { 8 }) {
            self.macro_single_summary();
            return;
        }
        if matches!(self.profile, Profile::Clean | Profile::Benign | Profile::Crash | Profile::Reject | Profile::Foreign | Profile::Streams | Profile::ReadOnly) && self.handles_open.is_empty() && self.rng.chance(5) {
            self.macro_bulk();
            return;
        }
        let k = self.rng.weighted(&self.weights.clone());
        let odd = matches!(self.profile, Profile::Streams | Profile::Reject);
        if !self.handles_open.is_empty() {
            if self.avoid_delete_under_handle && matches!(k, K_DROP | K_RMSTREAM | K_RMSIG) {
                return;
            }
            if k == K_RESTART {
                // handles are closed before the package is
                let hs: Vec<u8> = self.handles_open.iter().map(|x| x.0).collect();
                for h in hs {
                    self.push(Op::DropWriter { h });
                }
                self.handles_open.clear();
            }
        }
        let op = match k {
            K_CREATE => {
                if self.profile == Profile::Schema && self.rng.chance(600) {
                    self.op_create_exotic()
                } else {
                    self.op_create()
                }
            }
            K_DROP => self.op_drop(),
            K_INSERT => self.op_insert(),
            K_UPDATE => self.op_update(),
            K_DELETE => self.op_delete(),
            K_SELECT => self.op_select(),
            K_WSTREAM => self.op_wstream(odd),
            K_RSTREAM => self.op_rstream(odd),
            K_RMSTREAM => self.op_rmstream(odd),
            K_SUMMARY => self.op_summary(),
            K_DBCP => {
                let cp = *self.rng.pick(&self.cp_set);
                self.model.db_cp = cp;
                Some(Op::SetDbCodepage(cp))
            }
            K_FLUSH => Some(Op::Flush),
            K_RESTART => Some(self.op_restart()),
            K_RMSIG => {
                self.model.sig = false;
                self.model.sig_ex = false;
                Some(Op::RemoveSignature)
            }
            K_INVALID => self.op_invalid(),
            _ => Some(Op::Observe),
        };
        match op {
            Some(op) => self.push(op),
            None => {
                // nothing to act on yet: make something
                if let Some(op) = self.op_create() {
                    self.push(op);
                }
            }
        }
    }
}

fn swarm_weights(p: Profile, rng: &mut Prng) -> [u32; NKINDS] {
    let mut w = [0u32; NKINDS];
    let base: [(usize, u32); 16] = match p {
        Profile::Foreign => [
            (K_CREATE, 10), (K_DROP, 4), (K_INSERT, 22), (K_UPDATE, 12), (K_DELETE, 10), (K_SELECT, 8), (K_WSTREAM, 6), (K_RSTREAM, 2),
            (K_RMSTREAM, 2), (K_SUMMARY, 6), (K_DBCP, 2), (K_FLUSH, 4), (K_RESTART, 8), (K_RMSIG, 1), (K_INVALID, 6), (K_OBSERVE, 3),
        ],
        Profile::Clean | Profile::Benign | Profile::Crash | Profile::Script | Profile::Corrupt | Profile::Limits | Profile::ReadOnly => [
            (K_CREATE, 10), (K_DROP, 4), (K_INSERT, 22), (K_UPDATE, 12), (K_DELETE, 10), (K_SELECT, 8), (K_WSTREAM, 6), (K_RSTREAM, 2),
            (K_RMSTREAM, 2), (K_SUMMARY, 6), (K_DBCP, 2), (K_FLUSH, 4), (K_RESTART, 8), (K_RMSIG, 1), (K_INVALID, 0), (K_OBSERVE, 3),
        ],
        Profile::Reject => [
            (K_CREATE, 10), (K_DROP, 3), (K_INSERT, 18), (K_UPDATE, 8), (K_DELETE, 6), (K_SELECT, 3), (K_WSTREAM, 4), (K_RSTREAM, 1),
            (K_RMSTREAM, 2), (K_SUMMARY, 3), (K_DBCP, 1), (K_FLUSH, 2), (K_RESTART, 5), (K_RMSIG, 0), (K_INVALID, 34), (K_OBSERVE, 0),
        ],
        Profile::Schema => [
            (K_CREATE, 40), (K_DROP, 6), (K_INSERT, 6), (K_UPDATE, 2), (K_DELETE, 2), (K_SELECT, 4), (K_WSTREAM, 1), (K_RSTREAM, 0),
            (K_RMSTREAM, 0), (K_SUMMARY, 1), (K_DBCP, 1), (K_FLUSH, 3), (K_RESTART, 14), (K_RMSIG, 0), (K_INVALID, 0), (K_OBSERVE, 4),
        ],
        Profile::Summary => [
            (K_CREATE, 1), (K_DROP, 0), (K_INSERT, 2), (K_UPDATE, 0), (K_DELETE, 0), (K_SELECT, 0), (K_WSTREAM, 1), (K_RSTREAM, 0),
            (K_RMSTREAM, 0), (K_SUMMARY, 70), (K_DBCP, 2), (K_FLUSH, 5), (K_RESTART, 14), (K_RMSIG, 0), (K_INVALID, 0), (K_OBSERVE, 5),
        ],
        Profile::Streams | Profile::Handles => [
            (K_CREATE, 4), (K_DROP, 3), (K_INSERT, 8), (K_UPDATE, 2), (K_DELETE, 3), (K_SELECT, 1), (K_WSTREAM, 30), (K_RSTREAM, 10),
            (K_RMSTREAM, 10), (K_SUMMARY, 2), (K_DBCP, 0), (K_FLUSH, 4), (K_RESTART, 12), (K_RMSIG, 3), (K_INVALID, 0), (K_OBSERVE, 5),
        ],
    };
    for (k, v) in base.iter() {
        w[*k] = *v;
    }
    // swarm: knock out a random subset of the optional kinds
    for k in [K_DROP, K_UPDATE, K_DELETE, K_SELECT, K_WSTREAM, K_RSTREAM, K_RMSTREAM, K_SUMMARY, K_DBCP, K_FLUSH, K_OBSERVE] {
        if rng.chance(250) {
            let keep = match p {
                Profile::Summary => k == K_SUMMARY,
                Profile::Streams | Profile::Handles => k == K_WSTREAM,
                _ => false,
            };
            if !keep {
                w[k] = 0;
            }
        }
    }
    w
}

pub fn gen_foreign_spec(rng: &mut Prng, big: bool) -> ForeignSpec {
    gen_foreign_spec_ext(rng, big, false)
}

/// `wide_ok`: tables of more than 32 columns may be declared (nothing stops a
/// file from doing so; only create_table enforces the limit)
pub fn gen_foreign_spec_ext(rng: &mut Prng, big: bool, wide_ok: bool) -> ForeignSpec {
    let cp = if rng.chance(150) { 0 } else if rng.chance(400) { 65001 } else { *rng.pick(&crate::cp::ALL_IDS) };
    let alphabet = if cp == 0 { Vec::new() } else { crate::cp::common_chars(&[cp]) };
    let mut g = Gen {
        rng: rng.fork(1),
        profile: Profile::Foreign,
        model: Model::new_created(PType::Installer),
        serial: 500_000,
        alphabet,
        cp_set: vec![cp],
        recent: Vec::new(),
        stream_names: Vec::new(),
        ops: Vec::new(),
        next_id: 1,
        table_seq: 100,
        weights: [0; NKINDS],
        max_rows_per_insert: 8,
        allow_long: false,
        explicit_stream_flush: false,
        handles_open: Vec::new(),
        avoid_delete_under_handle: true,
    };
    let validation = rng.chance(800);
    let nt = if big { 1 + rng.usize_below(3) } else { rng.usize_below(6) };
    let mut tables = Vec::new();
    for ti in 0..nt {
        let wide = rng.chance(100);
        let (name, mut cols) = g.gen_plain_table(if wide { 32 } else { 7 });
        if wide_ok && rng.chance(150) {
            let n = cols.len();
            for k in 0..(33 + rng.usize_below(4)).saturating_sub(n) {
                let mut c = ColSpec::new(&format!("W{}", n + k + 1), if k % 2 == 0 { CType::I16 } else { CType::Str(20) });
                c.nullable = true;
                cols.push(c);
            }
        }
        if big && ti == 0 && cols.len() < 32 {
            let mut c = ColSpec::new("BigS", CType::Str(72));
            c.nullable = true;
            cols.push(c);
        }
        if !validation {
            for c in cols.iter_mut() {
                // without _Validation only what the type word carries exists
                c.range = None;
                c.fk = None;
                c.category = None;
                c.enums.clear();
            }
        }
        let tm = TableM { cols: cols.clone(), rows: Vec::new(), ordered: true, exact_seq: true, plain: true, catalog: false };
        let nrows = if big && ti == 0 { 300 + rng.usize_below(300) } else if rng.chance(200) { 0 } else { rng.usize_below(24) };
        let mut rows: Vec<Vec<Val>> = Vec::new();
        let mut keys: Vec<Vec<Val>> = Vec::new();
        for _ in 0..nrows {
            let r: Vec<Val> = g.gen_row(&tm).into_iter().map(Val::norm).collect();
            let k = tm.key_of(&r);
            if !keys.contains(&k) {
                keys.push(k);
                rows.push(r);
            }
        }
        let sorted = rng.chance(500);
        if sorted {
            let idx = tm.key_idx();
            rows.sort_by(|a, b| {
                let ka: Vec<Val> = idx.iter().map(|&i| a[i].clone()).collect();
                let kb: Vec<Val> = idx.iter().map(|&i| b[i].clone()).collect();
                key_cmp(&ka, &kb)
            });
        }
        tables.push(FTable { name, cols, rows, sorted: sorted || nrows <= 1 || { false }, width1: rng.chance(150) });
    }
    for t in tables.iter_mut() {
        if t.rows.len() <= 1 {
            t.sorted = true;
        }
    }
    // one very long string now and then
    if rng.chance(50) && cp != 0 {
        g.serial += 1;
        let s = long_string(g.serial, *rng.pick(&[65535u32, 65536, 65536, 65537, 131072, 70000]) + if rng.chance(600) { 0 } else { rng.below(3000) as u32 });
        let mut c = ColSpec::new("Blob", CType::Str(0));
        c.nullable = true;
        let mut k = ColSpec::new("Id", CType::I16);
        k.key = true;
        tables.push(FTable {
            name: "LongT".into(),
            cols: vec![k, c],
            rows: vec![vec![Val::Int(1), Val::Str(s)], vec![Val::Int(2), Val::Null]],
            sorted: true,
            width1: false,
        });
    }
    let long_refs = rng.chance(300);
    let scp = if rng.chance(500) { Some(cp) } else if rng.chance(300) { None } else { Some(*rng.pick(&[65001u32, 1252, 0])) };
    let scp_eff = match scp {
        Some(0) | None => 65001,
        Some(c) => c,
    };
    let salpha = if scp == Some(0) { Vec::new() } else { crate::cp::common_chars(&[scp_eff]) };
    let mut props = Vec::new();
    let mut sstr = |rng: &mut Prng| -> String {
        let n = rng.usize_below(12);
        (0..n)
            .map(|_| if !salpha.is_empty() && rng.chance(300) { *rng.pick(&salpha) } else { *rng.pick(&['a', 'B', ' ', '1', ';']) })
            .collect()
    };
    for id in [2u32, 3, 4, 6, 18, 5, 8] {
        if rng.chance(600) {
            props.push((id, FProp::Str(sstr(rng))));
        }
    }
    if rng.chance(500) {
        let langs: Vec<String> = (0..rng.below(3)).map(|_| rng.pick(&[1033u16, 0, 1041]).to_string()).collect();
        if rng.chance(200) {
            // just a platform, no separator (other tools write that)
            props.push((7, FProp::Str(rng.pick(&["Intel", "x64", "Arm64"]).to_string())));
        } else {
            props.push((7, FProp::Str(format!("{};{}", rng.pick(&["x64", "Intel", ""]), langs.join(",")))));
        }
    }
    if rng.chance(500) {
        let u = uuid::Uuid::from_u128(((rng.next_u64() as u128) << 64) | rng.next_u64() as u128);
        props.push((9, FProp::Str(format!("{{{}}}", u.hyphenated()).to_ascii_uppercase())));
    }
    if rng.chance(500) {
        props.push((12, FProp::Time(rng.below(0x0200_0000_0000_0000))));
    }
    if rng.chance(500) {
        props.push((15, FProp::I4(rng.range(-5, 500) as i32)));
    }
    let mut version = 0;
    for (id, p) in [(14u32, FProp::I4(200)), (19, FProp::I4(2)), (13, FProp::Time(5)), (20, FProp::Empty), (21, FProp::Null), (22, FProp::I2(-7)), (23, FProp::I1(-3))] {
        if rng.chance(200) {
            if matches!(p, FProp::I1(_)) {
                version = 1;
            }
            props.push((id, p));
        }
    }
    // a table with columns of the two categories that have a second spelling
    let mut alt_category = false;
    if validation && rng.chance(150) {
        alt_category = rng.chance(600);
        let mut k = ColSpec::new("Id", CType::I16);
        k.key = true;
        let mut gcol = ColSpec::new("Code", CType::Str(38));
        gcol.nullable = true;
        gcol.category = Some("GUID".into());
        let mut f = ColSpec::new("Sddl", CType::Str(0));
        f.nullable = true;
        f.category = Some("FormattedSDDLText".into());
        tables.push(FTable {
            name: "GuidT".into(),
            cols: vec![k, gcol, f],
            rows: vec![
                vec![Val::Int(1), Val::Str("{12345678-9ABC-DEF0-1234-56789ABCDEF0}".into()), Val::Null],
                vec![Val::Int(2), Val::Null, Val::Str("D:(A;;GA;;;WD)".into())],
            ],
            sorted: true,
            width1: false,
        });
    }
    // names at the container's length limit (31 UTF-16 units: 61/62 packed characters; tables 59/60)
    if !validation && rng.chance(300) {
        // (only where no _Validation table would have to hold the name in a 32-character column)
        let l = *rng.pick(&[59usize, 60]);
        let name: String = (0..l).map(|i| if i == 0 { 'L' } else { (b'a' + (i % 26) as u8) as char }).collect();
        let mut k = ColSpec::new("Id", CType::I16);
        k.key = true;
        tables.push(FTable { name, cols: vec![k], rows: vec![vec![Val::Int(7)]], sorted: true, width1: false });
    }
    let mut streams = Vec::new();
    if rng.chance(100) {
        for l in [61usize, 62] {
            if rng.chance(600) {
                g.serial += 1;
                let name: String = (0..l).map(|i| (b'A' + ((i * 7) % 26) as u8) as char).collect();
                streams.push((name, 33, g.serial));
            }
        }
    }
    for i in 0..rng.below(4) {
        g.serial += 1;
        let name = if rng.chance(400) {
            // names over the whole packing alphabet, odd and even lengths, and characters that are not packed
            const FULL: &[u8] = b"0123456789ABCDEFGHIJKLMNOPQRSTUVWXYZabcdefghijklmnopqrstuvwxyz._";
            let l = 1 + rng.usize_below(12);
            let mut n: String = (0..l).map(|_| FULL[rng.usize_below(64)] as char).collect();
            if rng.chance(200) {
                n.push(*rng.pick(&['-', ' ', 'é', '(', '漢']));
            }
            format!("{}{}", n, i)
        } else {
            format!("Bin{}.dat", i)
        };
        streams.push((name, *rng.pick(&[0u32, 10, 4095, 4096, 5000]), g.serial));
    }
    ForeignSpec {
        ptype: *rng.pick(&[PType::Installer, PType::Patch, PType::Transform]),
        codepage: cp,
        long_refs,
        tables,
        validation,
        pool_holes: if big { 2500 + rng.below(1000) as u32 } else if rng.chance(500) { rng.below(6) as u32 } else if rng.chance(200) { 100 + rng.below(300) as u32 } else { 0 },
        pool_dups: rng.chance(300),
        overcount: if rng.chance(200) { 1 + rng.below(4) as u32 } else { 0 },
        pool_pad: if long_refs && rng.chance(60) { 65_600 } else { 0 },
        pool_seed: rng.next_u64(),
        summary: FSummary {
            codepage: scp,
            props,
            layout_seed: rng.next_u64(),
            section_offset: if rng.chance(150) { 48 + 4 * rng.below(4) as u32 } else { 48 },
            gaps: rng.chance(150),
            os: *rng.pick(&[2u16, 2, 0, 1]),
            version,
        },
        streams,
        signature: rng.chance(100),
        docsummary: rng.chance(100),
        shuffle_catalog: rng.chance(300),
        catalog_first: big || rng.chance(200),
        stale_validation: if validation && rng.chance(400) {
            // the names the history's own create_table calls will use
            ["T", "X"].iter().flat_map(|p| (1..=4).flat_map(move |i| (1..=2).map(move |j| (format!("{}{}", p, i), format!("C{}", j))))).collect()
        } else {
            Vec::new()
        },
        saturate: None,
        alt_category,
    }
}

pub fn run_seed(seed: u64, property: &str, profile: Profile, run: u64) -> u64 {
    mix(&[seed, hash_str(property), hash_str(profile.name()), run])
}

pub fn generate(property: &str, profile: Profile, seed: u64, run: u64) -> Trace {
    let rs = run_seed(seed, property, profile, run);
    let mut rng = Prng::new(rs);
    // ---- code pages and alphabet
    let mut cp_set = vec![65001u32];
    if rng.chance(if profile == Profile::Summary { 700 } else { 300 }) {
        let n = 1 + rng.below(2);
        cp_set.clear();
        for _ in 0..n {
            cp_set.push(*rng.pick(&crate::cp::ALL_IDS));
        }
        if rng.chance(500) {
            cp_set.push(65001);
        }
    }
    let mut alphabet = crate::cp::common_chars(&cp_set);
    // ---- knobs
    let mut disk = DiskCfg { disk_seed: rng.next_u64(), ..Default::default() };
    match profile {
        Profile::Benign => {
            disk.eintr_permille = *rng.pick(&[0u32, 20, 100, 250]);
            disk.short_permille = *rng.pick(&[0u32, 50, 300, 500]);
            if disk.eintr_permille == 0 && disk.short_permille == 0 {
                disk.short_permille = 200;
            }
            disk.write_back = rng.chance(300);
        }
        Profile::Crash => disk.write_back = rng.chance(800),
        Profile::Corrupt => {}
        _ => disk.write_back = rng.chance(400),
    }
    let knobs = Knobs {
        disk,
        hash_seed: rng.next_u64(),
        observe_pct: *rng.pick(&[0u32, 10, 30, 100]),
        aux_seed: rng.next_u64(),
    };
    let ptype = *rng.pick(&[PType::Installer, PType::Installer, PType::Patch, PType::Transform]);
    let big_script = profile == Profile::Script && run % 6 == 4;
    let (init, model) = if profile == Profile::Foreign || (profile == Profile::Corrupt && rng.chance(300)) || (profile == Profile::ReadOnly && rng.chance(300)) || (profile == Profile::Reject && rng.chance(250)) || (profile == Profile::Schema && rng.chance(150)) || big_script {
        let mut spec = gen_foreign_spec_ext(&mut rng, big_script, profile == Profile::Corrupt);
        if profile == Profile::Script {
            // every fault plan of a script re-encodes, re-opens and re-decodes the start image:
            // 65,600 padding entries there cost minutes per script and add nothing
            spec.pool_pad = 0;
        }
        cp_set = vec![if spec.codepage == 0 { 65001 } else { spec.codepage }];
        alphabet = if spec.codepage == 0 { Vec::new() } else { crate::cp::common_chars(&cp_set) };
        // (UTF-8 represents whatever the image's own page does)
        if !cp_set.contains(&65001) {
            cp_set.push(65001);
        }
        let m = spec.model();
        (Init::Foreign(Box::new(spec)), m)
    } else {
        (Init::Create(ptype), Model::new_created(ptype))
    };
    let weights = swarm_weights(profile, &mut rng);
    let mut g = Gen {
        rng: rng.fork(7),
        profile,
        model,
        serial: 0,
        alphabet,
        cp_set,
        recent: Vec::new(),
        stream_names: Vec::new(),
        ops: Vec::new(),
        next_id: 1,
        table_seq: 0,
        weights,
        max_rows_per_insert: *rng.pick(&[2usize, 5, 12, 40]),
        allow_long: rng.chance(300),
        explicit_stream_flush: profile == Profile::Script,
        handles_open: Vec::new(),
        avoid_delete_under_handle: rng.chance(900),
    };
    let n_ops = match profile {
        Profile::Script => 3 + rng.usize_below(6),
        Profile::ReadOnly => 2 + rng.usize_below(14),
        Profile::Corrupt => 2 + rng.usize_below(10),
        _ => 3 + rng.usize_below(38),
    };
    // most runs want a table early
    if !matches!(profile, Profile::Summary) && rng.chance(800) {
        if let Some(op) = g.op_create() {
            g.push(op);
        }
    }
    for _ in 0..n_ops {
        g.one_op();
    }
    if profile == Profile::ReadOnly {
        let r = g.op_restart();
        g.push(r);
        for _ in 0..1 + g.rng.below(3) {
            g.read_only_session();
        }
    }
    match profile {
        Profile::Corrupt => {
            if g.rng.chance(300) {
                // a template with several languages (list parsing is a reader of its own)
                let op = SumOp::SetLangs(vec![1033, *g.rng.pick(&[1031u16, 2057, 9]), 1041]);
                g.model.apply_summary(&op);
                g.push(Op::Summary(op));
                let op = SumOp::SetArch(g.rng.pick(&["x64", "Intel", ""]).to_string());
                g.model.apply_summary(&op);
                g.push(Op::Summary(op));
            }
            // close, damage the image, then a session driven by the old model
            let n = match g.rng.below(10) {
                0..=6 => 1,
                7..=8 => 2,
                _ => 3,
            };
            let mut edits = Vec::new();
            for _ in 0..n {
                edits.push(Edit::Corrupt(gen_corruption(&mut g.rng)));
            }
            let mode = *g.rng.pick(&[CloseMode::IntoInner, CloseMode::Drop, CloseMode::Crash]);
            g.push(Op::Restart { mode, edits });
            // the read and mutate sweep (the executor's observation reads
            // everything; joins are added here)
            for _ in 0..(4 + g.rng.below(8)) {
                if g.rng.chance(200) {
                    let ts: Vec<String> = g.model.tables.keys().cloned().collect();
                    let l = g.rng.pick(&ts).clone();
                    let r = g.rng.pick(&ts).clone();
                    if l != r {
                        let lc = g.model.tables[&l].cols[g.rng.usize_below(g.model.tables[&l].cols.len())].name.clone();
                        let rc = g.model.tables[&r].cols[g.rng.usize_below(g.model.tables[&r].cols.len())].name.clone();
                        let outer = g.rng.chance(500);
                        g.push(Op::Join { left: l, right: r, lcol: lc, rcol: rc, outer });
                        g.push(Op::Observe);
                        continue;
                    }
                }
                g.one_op();
            }
            g.push(Op::Flush);
            g.push(Op::Restart { mode: CloseMode::IntoInner, edits: Vec::new() });
        }
        _ => {
            let hs: Vec<u8> = g.handles_open.iter().map(|x| x.0).collect();
            for h in hs {
                g.push(Op::DropWriter { h });
            }
            g.handles_open.clear();
            if profile == Profile::Reject && g.rng.chance(120) {
                // a tail in which the file's catalog no longer matches the
                // definitions in memory: a column's validation row is edited
                // through a query, then calls are refused for every kind of
                // reason (unknown tables first - the statement never gets as
                // far as a table) and compared before/after
                let users: Vec<(String, String, bool)> = g
                    .model
                    .tables
                    .iter()
                    .filter(|(_, t)| !t.catalog)
                    .flat_map(|(n, t)| t.cols.iter().map(move |c| (n.clone(), c.name.clone(), matches!(c.ty, CType::I16 | CType::I32))))
                    .collect();
                if !users.is_empty() {
                    let (table, column, is_int) = g.rng.pick(&users).clone();
                    let nullable = g.rng.chance(600);
                    let (min, max) = if is_int && g.rng.chance(700) { (Some(0), Some(*g.rng.pick(&[1i32, 100, 30000]))) } else { (None, None) };
                    g.push(Op::CatalogEdit { table: table.clone(), column, nullable, min, max });
                    for _ in 0..2 + g.rng.below(5) {
                        let ghost = format!("Ghost{}", g.rng.below(3));
                        match g.rng.below(8) {
                            0 => g.push(Op::Select { table: ghost, cols: Vec::new(), cond: None }),
                            1 => g.push(Op::Insert { table: ghost, rows: vec![vec![Val::Int(1)]] }),
                            2 => g.push(Op::Update { table: ghost, sets: vec![("A".to_string(), Val::Int(1))], cond: None }),
                            3 => g.push(Op::Delete { table: ghost, cond: None }),
                            4 => g.push(Op::DropTable { name: ghost }),
                            _ => g.one_op(),
                        }
                    }
                    let hs: Vec<u8> = g.handles_open.iter().map(|x| x.0).collect();
                    for h in hs {
                        g.push(Op::DropWriter { h });
                    }
                    g.handles_open.clear();
                }
            }
            let op = g.op_restart();
            g.push(op);
        }
    }
    let mut faults = Vec::new();
    if profile == Profile::ReadOnly && g.rng.chance(150) {
        // the medium's own flush fails once while a read-only session closes
        let restarts: Vec<u32> = g.ops.iter().filter(|o| matches!(o.op, Op::Restart { .. })).map(|o| o.id).collect();
        if restarts.len() >= 2 {
            let id = restarts[1 + g.rng.usize_below(restarts.len() - 1)];
            let kind = if g.rng.chance(600) { crate::disk::EvKind::Flush } else { crate::disk::EvKind::Read };
            faults.push(crate::disk::FaultSpec { op_id: id, kind, nth: 0, persistent: false });
        }
    }
    Trace {
        property: property.to_string(),
        profile: profile.name().to_string(),
        seed,
        run,
        check: None,
        site: None,
        message: None,
        knobs,
        init,
        faults,
        ops: g.ops,
    }
}

pub fn gen_corruption(rng: &mut Prng) -> CorruptSpec {
    let p = rng.below(1_000_000) as u32;
    match rng.below(100) {
        0..=9 => CorruptSpec::BitFlip(p, rng.below(8) as u8),
        10..=15 => CorruptSpec::Overwrite(p, 1 + rng.below(8) as u8, rng.next_u64() as u32),
        16..=19 => CorruptSpec::ZeroSector(p),
        20..=24 => CorruptSpec::Truncate(if rng.chance(500) { p } else { 999_000 }),
        25..=26 => CorruptSpec::CopySector(p, rng.below(1_000_000) as u32),
        27..=28 => CorruptSpec::StaleSector(p),
        29..=30 => CorruptSpec::RandomBytes(rng.below(3000) as u32, rng.next_u64() as u32),
        31..=58 => CorruptSpec::Cell(rng.next_u64() as u32, rng.next_u64() as u32, rng.below(10) as u8),
        59..=70 => CorruptSpec::StreamLen(rng.next_u64() as u32, rng.below(5) as u8, rng.next_u64() as u32),
        71..=74 => CorruptSpec::PoolHeader(rng.below(4) as u8),
        75..=84 => CorruptSpec::PoolEntry(rng.next_u64() as u32, rng.below(10) as u8),
        85..=92 => CorruptSpec::PropSet(if rng.chance(120) { 19 } else { rng.below(20) as u8 }, rng.next_u64() as u32),
        93..=94 => CorruptSpec::DataHighBit(rng.next_u64() as u32),
        95..=96 => CorruptSpec::AddEntry(if rng.chance(300) { *rng.pick(&[12u8, 28]) } else { rng.below(8) as u8 }),
        97 => CorruptSpec::PoolGrow(*rng.pick(&[1u32, 70, 65_535, 70_000, 80_000])),
        _ => CorruptSpec::RootClsid,
    }
}
