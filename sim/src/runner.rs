//! Seeded search over many simulated runs, in parallel; minimisation, replay
//! files, known findings and evidence.

use crate::exec::{self, ExecCfg, RunResult, RunStats, Violation};
use crate::gen::{self, Profile};
use crate::ops::*;
use crate::prng::{hash_str, mix};
use std::collections::{BTreeMap, HashSet};
use std::sync::atomic::{AtomicBool, AtomicU64, Ordering};
use std::sync::Mutex;
use std::time::Instant;

pub const DEFAULT_SEED: u64 = 20261003;
pub static HARNESS_ERRORS: AtomicU64 = AtomicU64::new(0);
/// wall-clock seconds without progress after which a run counts as hung
pub const STALL_SECS: u64 = 120;

pub fn verif_seed() -> u64 {
    std::env::var("VERIF_SEED").ok().and_then(|s| s.trim().parse::<u64>().ok()).unwrap_or(DEFAULT_SEED)
}

pub fn verif_root() -> std::path::PathBuf {
    std::env::var("VERIF_ROOT").map(std::path::PathBuf::from).unwrap_or_else(|_| std::path::PathBuf::from("/verif"))
}

pub struct Plan {
    pub property: &'static str,
    pub level: &'static str,
    /// (profile, runs in the quick tier, runs in the thorough tier)
    pub parts: Vec<(Profile, u64, u64)>,
    pub rule: &'static str,
    pub assumptions: Vec<&'static str>,
}

pub fn plan(property: &str) -> Option<Plan> {
    use Profile::*;
    let common_assume = vec![
        "cfb 0.10.0 is trusted as container reader/writer on both sides of every comparison",
        "the reference model and the independent codec are written from the public format description; agreement with Microsoft's implementation is assumed",
        "sampling, not enumeration: a clean batch is evidence, not proof",
    ];
    let rule_hist = "one case = one seeded run: a model-generated operation history executed on the simulated disk with restarts; non-trivial = at least one successful mutation and one oracle evaluation; distinct = different (operation-kind sequence, final model state) fingerprint";
    Some(match property {
        "C01" => Plan { property: "C01", level: "exploration", parts: vec![(Clean, 30000, 600000), (Benign, 12000, 250000), (Crash, 18000, 400000)], rule: rule_hist, assumptions: common_assume },
        "C02" => Plan { property: "C02", level: "exploration", parts: vec![(Foreign, 30000, 600000)], rule: "one case = one foreign-encoded start image (format knobs drawn per run) plus a seeded history; non-trivial = the image holds at least one user table or stream and an oracle was evaluated; distinct = different fingerprint", assumptions: common_assume },
        "C03" => Plan { property: "C03", level: "exploration", parts: vec![(Clean, 25000, 500000), (Benign, 10000, 200000), (Reject, 6000, 120000)], rule: rule_hist, assumptions: common_assume },
        "C04" => Plan { property: "C04", level: "exploration", parts: vec![(Reject, 30000, 600000)], rule: "one case = one seeded history with ~30% invalid calls (late-failure biased), each refused call bracketed by full snapshots, plus a twin run with the refused calls deleted; non-trivial = at least one refused call; distinct = different fingerprint", assumptions: common_assume },
        "C05" => Plan { property: "C05", level: "exploration", parts: vec![(Clean, 20000, 400000), (Reject, 10000, 200000), (Benign, 6000, 100000)], rule: rule_hist, assumptions: common_assume },
        "C06" => Plan { property: "C06", level: "exploration", parts: vec![(Schema, 30000, 600000)], rule: rule_hist, assumptions: common_assume },
        "C08" => Plan { property: "C08", level: "exploration", parts: vec![(Clean, 20000, 400000), (Crash, 6000, 200000), (Foreign, 6000, 200000), (Reject, 8000, 200000)], rule: rule_hist, assumptions: common_assume },
        "C09" => Plan { property: "C09", level: "exploration", parts: vec![(Corrupt, 60000, 2000000)], rule: "one case = an image from a live run, damaged by 1-3 raw-sector or stream-layer faults, then open + read sweep + mutate sweep + flush; non-trivial = the corruption was applied and open was attempted; distinct = different fingerprint", assumptions: common_assume },
        "C10" => Plan { property: "C10", level: "exploration", parts: vec![(Summary, 30000, 600000)], rule: rule_hist, assumptions: common_assume },
        "C11" => Plan { property: "C11", level: "exploration", parts: vec![(Streams, 24000, 500000), (Handles, 8000, 200000)], rule: rule_hist, assumptions: common_assume },
        "C16" => Plan { property: "C16", level: "exploration", parts: vec![(ReadOnly, 14000, 300000), (Clean, 8000, 200000), (Foreign, 6000, 150000), (Streams, 4000, 100000)], rule: rule_hist, assumptions: common_assume },
        _ => return None,
    })
}

#[derive(Default)]
pub struct Agg {
    pub runs: u64,
    pub nontrivial: u64,
    pub ops: u64,
    pub mutations_ok: u64,
    pub rejected: u64,
    pub oracle_evals: u64,
    pub snapshots: u64,
    pub decodes: u64,
    pub restarts: u64,
    pub tainted_runs: u64,
    pub disk: crate::disk::DiskStats,
    pub probes: BTreeMap<&'static str, u64>,
    pub fingerprints: HashSet<u64>,
    pub states: HashSet<u64>,
    pub trigrams: HashSet<u64>,
    pub digest: u64,
    pub samples: Vec<String>,
    pub other_property: BTreeMap<String, u64>,
    pub twin_runs: u64,
    pub known_hits: u64,
}

impl Agg {
    pub fn absorb(&mut self, trace: &Trace, st: &RunStats, run: u64) {
        self.runs += 1;
        self.ops += st.ops;
        self.mutations_ok += st.mutations_ok;
        self.rejected += st.rejected;
        self.oracle_evals += st.oracle_evals;
        self.snapshots += st.snapshots;
        self.decodes += st.decodes;
        self.restarts += st.restarts;
        if st.tainted {
            self.tainted_runs += 1;
        }
        self.disk.add(&st.disk);
        for (k, v) in st.probes.iter() {
            *self.probes.entry(k).or_insert(0) += v;
        }
        let mut fp = 0u64;
        let kinds: Vec<u64> = trace.ops.iter().map(|o| hash_str(o.op.kind())).collect();
        for k in kinds.iter() {
            fp = mix(&[fp, *k]);
        }
        for w in kinds.windows(3) {
            self.trigrams.insert(mix(&[w[0], w[1], w[2]]));
        }
        for s in st.states.iter() {
            self.states.insert(*s);
        }
        fp = mix(&[fp, st.states.last().cloned().unwrap_or(0), st.probes.len() as u64]);
        let nontrivial = match trace.profile.as_str() {
            "corrupt" => st.probes.keys().any(|k| k.starts_with("corrupt_")),
            "reject" => st.rejected > 0 && st.oracle_evals > 0,
            _ => st.mutations_ok > 0 && st.oracle_evals > 0,
        };
        if nontrivial {
            self.nontrivial += 1;
            self.fingerprints.insert(fp);
        }
        // order-independent digest of per-run digests
        self.digest ^= mix(&[run, hash_str(&trace.profile), st.digest]);
        if self.samples.len() < 3 && nontrivial {
            self.samples.push(trace.brief());
        }
    }
}

pub struct Found {
    pub trace: Trace,
    pub violation: Violation,
}

fn matches_property(v: &Violation, property: &str) -> bool {
    v.property() == property
}

/// Executes one generated run (plus its twin for the reject profile).
pub fn run_one(trace: &Trace) -> RunResult {
    let keep_final = trace.profile == "reject";
    let cfg = ExecCfg { oracles: true, keep_final };
    let mut res = exec::run(trace, &cfg);
    if keep_final && !res.violations.is_empty() && !res.stats.rejected_ids.is_empty() && !res.stats.tainted {
        // something went wrong in a history with refused calls: if the same
        // history without them is clean, the refused calls changed something
        let mut twin = trace.clone();
        let rej: HashSet<u32> = res.stats.rejected_ids.iter().cloned().collect();
        twin.ops.retain(|o| !rej.contains(&o.id));
        let tr = exec::run(&twin, &ExecCfg { oracles: true, keep_final: false });
        res.stats.probe("twin_run_after_violation");
        if tr.violations.is_empty() && !res.violations.iter().any(|v| v.property() == "C04") {
            let first = res.violations[0].clone();
            res.violations.push(Violation {
                check: "C04.twin".into(),
                site: "twin-oracle".into(),
                message: format!(
                    "with its {} refused calls the history violates {} ({}); the same history without them does not",
                    rej.len(),
                    first.check,
                    first.message
                ),
                op_id: first.op_id,
            });
        }
    } else if keep_final && res.violations.is_empty() && !res.stats.rejected_ids.is_empty() && !res.stats.tainted {
        if let Some(img) = res.final_image.as_ref() {
            let mut twin = trace.clone();
            let rej: HashSet<u32> = res.stats.rejected_ids.iter().cloned().collect();
            twin.ops.retain(|o| !rej.contains(&o.id));
            let tr = exec::run(&twin, &ExecCfg { oracles: false, keep_final: true });
            res.stats.probe("twin_run");
            res.stats.oracle_evals += 1;
            if let Some(timg) = tr.final_image.as_ref() {
                if let Some(diff) = crate::twin::compare_images(img, timg) {
                    res.violations.push(Violation {
                        check: "C04.twin".into(),
                        site: "twin".into(),
                        message: format!(
                            "the saved file differs from that of the same history without its {} refused calls: {}",
                            rej.len(),
                            diff
                        ),
                        op_id: *res.stats.rejected_ids.last().unwrap(),
                    });
                }
            }
        }
    }
    res
}

pub struct BatchOutcome {
    pub agg: Agg,
    pub found: Vec<Found>,
}

pub fn run_batch(property: &str, profile: Profile, seed: u64, runs: u64, threads: usize, stop_after: usize) -> BatchOutcome {
    let known = load_known();
    let next = AtomicU64::new(0);
    let stop = AtomicBool::new(false);
    let agg = Mutex::new(Agg::default());
    let found: Mutex<Vec<Found>> = Mutex::new(Vec::new());
    // watchdog: a run that makes no progress for STALL_SECS is a hang
    let beats: Vec<AtomicU64> = (0..threads).map(|_| AtomicU64::new(0)).collect();
    let current: Vec<Mutex<Option<Trace>>> = (0..threads).map(|_| Mutex::new(None)).collect();
    let finished = AtomicU64::new(0);
    std::thread::scope(|s| {
        s.spawn(|| {
            let mut last: Vec<(u64, std::time::Instant)> = beats.iter().map(|b| (b.load(Ordering::Relaxed), std::time::Instant::now())).collect();
            while finished.load(Ordering::Relaxed) < threads as u64 {
                std::thread::sleep(std::time::Duration::from_millis(500));
                for (i, b) in beats.iter().enumerate() {
                    let v = b.load(Ordering::Relaxed);
                    if v != last[i].0 {
                        last[i] = (v, std::time::Instant::now());
                    } else if v != u64::MAX && last[i].1.elapsed().as_secs() >= STALL_SECS {
                        let t = current[i].lock().unwrap().clone();
                        if let Some(t) = t {
                            // nothing in a run reads a clock or waits for anything: a run that stops
                            // making progress is a loop in the code under test.  For C09 that is the
                            // property itself; elsewhere the call did not return what the property says
                            // it returns.  (C15's fault plans have their own driver and no watchdog.)
                            let v = Violation {
                                check: format!("{}.hang", property),
                                site: "watchdog".into(),
                                message: format!("a simulated run made no progress for {} s of wall time (a session normally takes under a millisecond)", STALL_SECS),
                                op_id: 0,
                            };
                            let path = write_replay(property, &t, &v);
                            println!("violation: check={} site=watchdog message={}", v.check, v.message);
                            println!("VIOLATION property={} replay={}", property, path.display());
                            std::process::exit(1);
                        }
                    }
                }
            }
        });
        for wi in 0..threads {
            let beats = &beats;
            let current = &current;
            let finished = &finished;
            let known = &known;
            let next = &next;
            let stop = &stop;
            let agg = &agg;
            let found = &found;
            s.spawn(move || {
                let mut local = Agg::default();
                loop {
                    beats[wi].fetch_add(1, Ordering::Relaxed);
                    if stop.load(Ordering::Relaxed) {
                        break;
                    }
                    let run = next.fetch_add(1, Ordering::Relaxed);
                    if run >= runs {
                        break;
                    }
                    let attempt = std::panic::catch_unwind(std::panic::AssertUnwindSafe(|| {
                        let trace = gen::generate(property, profile, seed, run);
                        *current[wi].lock().unwrap() = Some(trace.clone());
                        let res = run_one(&trace);
                        (trace, res)
                    }));
                    let (trace, res) = match attempt {
                        Ok(x) => x,
                        Err(_) => {
                            eprintln!("harness error: simulator panicked in {} run {} (seed {})", profile.name(), run, seed);
                            HARNESS_ERRORS.fetch_add(1, Ordering::Relaxed);
                            stop.store(true, Ordering::Relaxed);
                            break;
                        }
                    };
                    local.absorb(&trace, &res.stats, run);
                    for v in res.violations.iter() {
                        if matches_property(v, property) {
                            let mut f = found.lock().unwrap();
                            if known.matches(v).is_some() {
                                // a listed finding: note it once, keep exploring
                                local.known_hits += 1;
                                if !f.iter().any(|x| x.violation.signature() == v.signature()) {
                                    f.push(Found { trace: trace.clone(), violation: v.clone() });
                                }
                                break;
                            }
                            f.push(Found { trace: trace.clone(), violation: v.clone() });
                            if f.iter().filter(|x| known.matches(&x.violation).is_none()).count() >= stop_after {
                                stop.store(true, Ordering::Relaxed);
                            }
                            break;
                        }
                    }
                    if !res.violations.is_empty() && !res.violations.iter().any(|v| matches_property(v, property)) {
                        let p = res.violations[0].check.clone();
                        *local.other_property.entry(p).or_insert(0) += 1;
                    }
                }
                beats[wi].store(u64::MAX, Ordering::Relaxed);
                finished.fetch_add(1, Ordering::Relaxed);
                let mut a = agg.lock().unwrap();
                merge(&mut a, local);
            });
        }
    });
    let mut f = found.into_inner().unwrap();
    f.sort_by_key(|x| x.trace.run);
    BatchOutcome { agg: agg.into_inner().unwrap(), found: f }
}

pub fn merge(a: &mut Agg, b: Agg) {
    a.runs += b.runs;
    a.nontrivial += b.nontrivial;
    a.ops += b.ops;
    a.mutations_ok += b.mutations_ok;
    a.rejected += b.rejected;
    a.oracle_evals += b.oracle_evals;
    a.snapshots += b.snapshots;
    a.decodes += b.decodes;
    a.restarts += b.restarts;
    a.tainted_runs += b.tainted_runs;
    a.twin_runs += b.twin_runs;
    a.known_hits += b.known_hits;
    a.disk.add(&b.disk);
    for (k, v) in b.probes {
        *a.probes.entry(k).or_insert(0) += v;
    }
    a.fingerprints.extend(b.fingerprints);
    a.states.extend(b.states);
    a.trigrams.extend(b.trigrams);
    a.digest ^= b.digest;
    for s in b.samples {
        if a.samples.len() < 4 {
            a.samples.push(s);
        }
    }
    for (k, v) in b.other_property {
        *a.other_property.entry(k).or_insert(0) += v;
    }
}

// ------------------------------------------------------------ minimisation

fn still_fails(t: &Trace, check: &str, site: &str) -> Option<Violation> {
    let res = run_one(t);
    res.violations.into_iter().find(|v| v.check == check && v.site == site)
}

/// ddmin over operations, then over rows / steps / faults.
pub fn minimise(found: &Found, budget: usize) -> (Trace, Violation, usize) {
    let check = found.violation.check.clone();
    let site = found.violation.site.clone();
    let mut best = found.trace.clone();
    let mut best_v = found.violation.clone();
    let mut execs = 0usize;
    // drop everything after the failing op first
    if let Some(pos) = best.ops.iter().position(|o| o.id == best_v.op_id) {
        if pos + 1 < best.ops.len() {
            let mut cand = best.clone();
            cand.ops.truncate(pos + 1);
            execs += 1;
            if let Some(v) = still_fails(&cand, &check, &site) {
                best = cand;
                best_v = v;
            }
        }
    }
    let mut n = 2usize;
    while best.ops.len() >= 2 && execs < budget {
        let len = best.ops.len();
        let chunk = (len + n - 1) / n;
        let mut reduced = false;
        let mut start = 0;
        while start < len && execs < budget {
            let end = (start + chunk).min(len);
            let mut cand = best.clone();
            cand.ops.drain(start..end);
            execs += 1;
            if let Some(v) = still_fails(&cand, &check, &site) {
                best = cand;
                best_v = v;
                n = (n - 1).max(2);
                reduced = true;
                break;
            }
            start = end;
        }
        if !reduced {
            if n >= len {
                break;
            }
            n = (n * 2).min(len);
        }
    }
    // argument shrinking
    let mut progress = true;
    while progress && execs < budget {
        progress = false;
        for i in 0..best.ops.len() {
            let cands = shrink_op(&best.ops[i].op);
            for c in cands {
                if execs >= budget {
                    break;
                }
                let mut cand = best.clone();
                cand.ops[i].op = c;
                execs += 1;
                if let Some(v) = still_fails(&cand, &check, &site) {
                    best = cand;
                    best_v = v;
                    progress = true;
                    break;
                }
            }
        }
        // faults and knobs
        for i in 0..best.faults.len() {
            let mut cand = best.clone();
            cand.faults.remove(i);
            execs += 1;
            if let Some(v) = still_fails(&cand, &check, &site) {
                best = cand;
                best_v = v;
                progress = true;
                break;
            }
        }
        if best.knobs.disk.eintr_permille > 0 || best.knobs.disk.short_permille > 0 {
            let mut cand = best.clone();
            cand.knobs.disk.eintr_permille = 0;
            cand.knobs.disk.short_permille = 0;
            execs += 1;
            if let Some(v) = still_fails(&cand, &check, &site) {
                best = cand;
                best_v = v;
                progress = true;
            }
        }
        if best.knobs.disk.write_back {
            let mut cand = best.clone();
            cand.knobs.disk.write_back = false;
            execs += 1;
            if let Some(v) = still_fails(&cand, &check, &site) {
                best = cand;
                best_v = v;
                progress = true;
            }
        }
    }
    (best, best_v, execs)
}

fn shrink_op(op: &Op) -> Vec<Op> {
    let mut out = Vec::new();
    match op {
        Op::Insert { table, rows } if rows.len() > 1 => {
            for i in 0..rows.len().min(12) {
                let mut r = rows.clone();
                r.remove(i);
                out.push(Op::Insert { table: table.clone(), rows: r });
            }
            out.insert(0, Op::Insert { table: table.clone(), rows: rows[rows.len() / 2..].to_vec() });
        }
        Op::CreateTable { name, cols } if cols.len() > 1 => {
            for i in 0..cols.len().min(12) {
                let mut c = cols.clone();
                c.remove(i);
                out.push(Op::CreateTable { name: name.clone(), cols: c });
            }
        }
        Op::Update { table, sets, cond } => {
            if cond.is_some() {
                out.push(Op::Update { table: table.clone(), sets: sets.clone(), cond: None });
            }
            if sets.len() > 1 {
                for i in 0..sets.len() {
                    let mut s = sets.clone();
                    s.remove(i);
                    out.push(Op::Update { table: table.clone(), sets: s, cond: cond.clone() });
                }
            }
        }
        Op::Delete { table, cond: Some(_) } => out.push(Op::Delete { table: table.clone(), cond: None }),
        Op::Select { table, cols, cond } => {
            if cond.is_some() {
                out.push(Op::Select { table: table.clone(), cols: cols.clone(), cond: None });
            }
            if !cols.is_empty() {
                out.push(Op::Select { table: table.clone(), cols: Vec::new(), cond: cond.clone() });
            }
        }
        Op::WriteStream { name, dseed, steps } if steps.len() > 1 => {
            let total: u32 = steps.iter().map(|s| if let WStep::Write(n) = s { *n } else { 0 }).sum();
            if !steps.iter().any(|s| matches!(s, WStep::Seek(_))) {
                out.push(Op::WriteStream { name: name.clone(), dseed: *dseed, steps: vec![WStep::Write(total)] });
            }
            for i in 0..steps.len().min(10) {
                let mut s = steps.clone();
                s.remove(i);
                out.push(Op::WriteStream { name: name.clone(), dseed: *dseed, steps: s });
            }
        }
        Op::Restart { mode, edits } => {
            if *mode != CloseMode::IntoInner && *mode != CloseMode::Crash {
                out.push(Op::Restart { mode: CloseMode::IntoInner, edits: edits.clone() });
            }
            if edits.len() > 1 {
                for i in 0..edits.len() {
                    let mut e = edits.clone();
                    e.remove(i);
                    out.push(Op::Restart { mode: *mode, edits: e });
                }
            }
        }
        _ => {}
    }
    out
}

// ------------------------------------------------------------ known findings

pub struct Known {
    pub findings: Vec<(String, String, String)>, // property, signature, description
}

pub fn load_known() -> Known {
    let mut k = Known { findings: Vec::new() };
    let path = verif_root().join("known_findings.txt");
    if let Ok(text) = std::fs::read_to_string(path) {
        for line in text.lines() {
            let line = line.trim();
            if let Some(rest) = line.strip_prefix("finding:") {
                // finding: property=C11 signature=<sig> <description>
                let mut prop = String::new();
                let mut sig = String::new();
                let mut desc = Vec::new();
                for w in rest.split_whitespace() {
                    if let Some(p) = w.strip_prefix("property=") {
                        prop = p.to_string();
                    } else if let Some(s) = w.strip_prefix("signature=") {
                        sig = s.to_string();
                    } else {
                        desc.push(w);
                    }
                }
                if !prop.is_empty() && !sig.is_empty() {
                    k.findings.push((prop, sig, desc.join(" ")));
                }
            }
        }
    }
    k
}

impl Known {
    pub fn matches(&self, v: &Violation) -> Option<&(String, String, String)> {
        let sig = v.signature();
        self.findings.iter().find(|(p, s, _)| p == v.property() && sig.starts_with(s.as_str()))
    }
}

/// Every listed finding of the property is printed on every run, with
/// whether this run reproduced it.
pub fn report_known(known: &Known, property: &str, hits: &mut Vec<String>) {
    for (p, sig, desc) in known.findings.iter() {
        if p != property {
            continue;
        }
        let reproduced = hits.iter().any(|h| h.contains(sig.as_str()));
        if !reproduced {
            let line = format!("KNOWN-FINDING: property={} {} [{}] (not reached in this run)", property, desc, sig);
            println!("{}", line);
            hits.push(line);
        }
    }
}

// ------------------------------------------------------------ evidence

pub fn json_escape(s: &str) -> String {
    serde_json::to_string(s).unwrap()
}

pub struct CheckReport {
    pub property: String,
    pub tier: String,
    pub seed: u64,
    pub level: String,
    pub agg: Agg,
    pub wall_s: f64,
    pub violations: usize,
    pub known_hits: Vec<String>,
    pub rule: String,
    pub assumptions: Vec<String>,
    pub per_profile: Vec<(String, u64)>,
    pub extra: BTreeMap<String, serde_json::Value>,
}

pub fn local_absorb(a: &mut Agg, t: &Trace, st: &RunStats, run: u64) {
    a.absorb(t, st, run);
}

pub fn write_evidence(r: &CheckReport) {
    write_evidence_with_distinct(r, r.agg.fingerprints.len() as u64)
}

pub fn write_evidence_with_distinct(r: &CheckReport, distinct: u64) {
    use serde_json::json;
    let a = &r.agg;
    let faults = json!({
        "eintr": a.disk.eintr,
        "short_read": a.disk.short_read,
        "short_write": a.disk.short_write,
        "short_write_split_small_field": a.disk.short_split_small,
        "hard_transient": {"read": a.disk.hard_transient[0], "write": a.disk.hard_transient[1], "seek": a.disk.hard_transient[2], "flush": a.disk.hard_transient[3]},
        "hard_persistent": {"read": a.disk.hard_persistent[0], "write": a.disk.hard_persistent[1], "seek": a.disk.hard_persistent[2], "flush": a.disk.hard_persistent[3]},
        "storage_full": a.disk.storage_full,
        "crashes": a.disk.crashes,
        "crashes_with_unflushed_cache": a.disk.crash_nonempty_cache,
        "torn_writes_applied": a.disk.torn_writes,
        "calls_on_dead_disk": a.disk.dead_calls,
    });
    let probes: BTreeMap<String, u64> = a.probes.iter().map(|(k, v)| (k.to_string(), *v)).collect();
    let mut coverage = json!({
        "evaluations": a.runs,
        "distinct_nontrivial": distinct,
        "nontrivial_runs": a.nontrivial,
        "rule": r.rule,
        "samples": a.samples,
        "runs_per_profile": r.per_profile.iter().map(|(p, n)| json!({"profile": p, "runs": n})).collect::<Vec<_>>(),
        "runs_per_hour": if r.wall_s > 0.0 { (a.runs as f64 / r.wall_s * 3600.0) as u64 } else { 0 },
        "operations_executed": a.ops,
        "successful_mutations": a.mutations_ok,
        "refused_calls": a.rejected,
        "oracle_evaluations": a.oracle_evals,
        "api_snapshots": a.snapshots,
        "independent_decodes": a.decodes,
        "restarts": a.restarts,
        "runs_ending_under_relaxed_oracle": a.tainted_runs,
        "medium_events_simulated": {"read": a.disk.events[0], "write": a.disk.events[1], "seek": a.disk.events[2], "flush": a.disk.events[3]},
        "simulated_time": "none: the system has no clock; medium events are the time-like measure",
        "faults_fired": faults,
        "reach_probes": probes,
        "distinct_abstract_states": a.states.len(),
        "distinct_operation_trigrams": a.trigrams.len(),
        "event_log_digest": format!("{:016x}", a.digest),
        "violations_of_other_properties_seen": a.other_property,
        "known_findings_hit": r.known_hits,
        "runs_that_reproduced_a_known_finding": a.known_hits,
        "components": {
            "real": ["msi (all of it, debug assertions and overflow checks on)", "cfb 0.10.0", "encoding_rs", "uuid", "byteorder"],
            "stub": ["storage medium: SimDisk instead of fs::File/Cursor", "foreign writer: independent encoder instead of Windows Installer tooling", "clock: never consulted"]
        },
        "exhaustive": false
    });
    if let Some(obj) = coverage.as_object_mut() {
        for (k, v) in r.extra.iter() {
            obj.insert(k.clone(), v.clone());
        }
    }
    let doc = json!({
        "property_id": r.property,
        "tier": r.tier,
        "seed": r.seed,
        "level": r.level,
        "coverage": coverage,
        "assumptions": r.assumptions,
        "wall_s": r.wall_s,
        "violations": r.violations,
    });
    let dir = verif_root().join("evidence");
    let _ = std::fs::create_dir_all(&dir);
    let path = dir.join(format!("{}.json", r.property));
    let _ = std::fs::write(path, serde_json::to_string_pretty(&doc).unwrap() + "\n");
}

pub fn threads() -> usize {
    std::env::var("VERIF_THREADS")
        .ok()
        .and_then(|s| s.parse().ok())
        .unwrap_or_else(|| std::thread::available_parallelism().map(|n| n.get()).unwrap_or(4))
}

pub fn write_replay(property: &str, trace: &Trace, v: &Violation) -> std::path::PathBuf {
    let dir = verif_root().join("replays");
    let _ = std::fs::create_dir_all(&dir);
    let mut t = trace.clone();
    t.check = Some(v.check.clone());
    t.site = Some(v.site.clone());
    t.message = Some(v.message.clone());
    let path = dir.join(format!("{}-{}-{}-{}.trace", property, trace.seed, trace.profile, trace.run));
    let _ = std::fs::write(&path, t.to_json());
    path
}

/// Returns the process exit code.
pub fn check(property: &str, tier: &str) -> i32 {
    let seed = verif_seed();
    println!("VERIF_SEED={} property={} tier={}", seed, property, tier);
    if property == "C15" {
        return crate::faultenum::check(tier, seed);
    }
    if property == "C20" {
        return crate::limits::check(tier, seed);
    }
    let plan = match plan(property) {
        Some(p) => p,
        None => {
            eprintln!("no check is registered for property {}", property);
            return 2;
        }
    };
    let t0 = Instant::now();
    let known = load_known();
    let nthreads = threads();
    let mut total = Agg::default();
    let mut per_profile = Vec::new();
    let mut reported: Vec<String> = Vec::new();
    let mut known_hits: Vec<String> = Vec::new();
    let mut violations = 0usize;
    for (profile, quick, thorough) in plan.parts.iter() {
        let runs = if tier == "thorough" { *thorough } else { *quick };
        let scale: f64 = std::env::var("VERIF_SCALE").ok().and_then(|s| s.parse().ok()).unwrap_or(1.0);
        let runs = ((runs as f64) * scale).max(1.0) as u64;
        let out = run_batch(property, *profile, seed, runs, nthreads, 8);
        per_profile.push((profile.name().to_string(), out.agg.runs));
        merge(&mut total, out.agg);
        for f in out.found.iter() {
            if let Some(k) = known.matches(&f.violation) {
                let line = format!("KNOWN-FINDING: property={} {} [{}]", property, k.2, k.1);
                if !known_hits.contains(&line) {
                    println!("{}", line);
                    known_hits.push(line);
                }
                continue;
            }
            let (mt, mv, _) = minimise(f, 600);
            if let Some(k) = known.matches(&mv) {
                let line = format!("KNOWN-FINDING: property={} {} [{}]", property, k.2, k.1);
                if !known_hits.contains(&line) {
                    println!("{}", line);
                    known_hits.push(line);
                }
                continue;
            }
            let sig = mv.signature();
            if reported.contains(&sig) {
                continue;
            }
            reported.push(sig);
            let path = write_replay(property, &mt, &mv);
            violations += 1;
            println!("violation: check={} site={} ops={} message={}", mv.check, mv.site, mt.ops.len(), mv.message);
            println!("VIOLATION property={} replay={}", property, path.display());
        }
    }
    const NK: u64 = crate::limits::NKINDS;
    let limit_kinds: &[u64] = match property {
        "C04" => &[5, 6, 7, 8, 9, 10, 12, 14, 15, 2, 24, 25, 26],
        "C03" => &[22, 3, 8, 14, 2 * NK + 22],
        "C01" => &[22, 4, 9, 13],
        "C08" => &[22, 9, 11, 24, 14, 27, 29, 30, 2 * NK + 22, NK + 22],
        "C05" => &[8, 6, 14, 2 * NK + 22],
        "C11" => &[20],
        "C16" => &[28, NK + 28],
        "C09" => &[22, 2 * NK + 22, NK + 22],
        _ => &[],
    };
    if !limit_kinds.is_empty() {
        // the boundary scenarios of C20 (large tables, full pools, long names), judged by this property's oracles
        let kinds = limit_kinds;
        let rounds = if tier == "thorough" { 6 } else { 1 };
        let jobs: Vec<u64> = (0..rounds).flat_map(|r| kinds.iter().map(move |k| r * crate::limits::NKINDS + k)).collect();
        let nextj = AtomicU64::new(0);
        let lim_found: Mutex<Vec<Found>> = Mutex::new(Vec::new());
        let lim_agg = Mutex::new(Agg::default());
        std::thread::scope(|s| {
            for _ in 0..nthreads.min(8) {
                s.spawn(|| loop {
                    let j = nextj.fetch_add(1, Ordering::Relaxed) as usize;
                    if j >= jobs.len() {
                        break;
                    }
                    let t = crate::limits::scenario(seed, jobs[j]);
                    let r = run_one(&t);
                    lim_agg.lock().unwrap().absorb(&t, &r.stats, jobs[j]);
                    if let Some(v) = r.violations.iter().find(|v| v.property() == property) {
                        lim_found.lock().unwrap().push(Found { trace: t, violation: v.clone() });
                    }
                });
            }
        });
        let la = lim_agg.into_inner().unwrap();
        per_profile.push(("limits".to_string(), la.runs));
        merge(&mut total, la);
        let mut lf = lim_found.into_inner().unwrap();
        lf.sort_by_key(|f| f.trace.run);
        for f in lf.iter() {
            let sig = f.violation.signature();
            if reported.contains(&sig) {
                continue;
            }
            reported.push(sig);
            let (mt, mv, _) = minimise(f, 8);
            let path = write_replay(property, &mt, &mv);
            violations += 1;
            println!("violation: check={} site={} ops={} message={}", mv.check, mv.site, mt.ops.len(), mv.message);
            println!("VIOLATION property={} replay={}", property, path.display());
        }
    }
    report_known(&known, property, &mut known_hits);
    let wall = t0.elapsed().as_secs_f64();
    let rep = CheckReport {
        property: property.to_string(),
        tier: tier.to_string(),
        seed,
        level: plan.level.to_string(),
        agg: total,
        wall_s: wall,
        violations,
        known_hits,
        rule: plan.rule.to_string(),
        assumptions: plan.assumptions.iter().map(|s| s.to_string()).collect(),
        per_profile,
        extra: BTreeMap::new(),
    };
    write_evidence(&rep);
    println!(
        "runs={} nontrivial_distinct={} oracle_evals={} events={} wall={:.1}s violations={}",
        rep.agg.runs,
        rep.agg.fingerprints.len(),
        rep.agg.oracle_evals,
        rep.agg.disk.total_events(),
        wall,
        violations
    );
    if HARNESS_ERRORS.load(Ordering::Relaxed) > 0 {
        eprintln!("harness error: the simulator itself failed; nothing is claimed");
        return 2;
    }
    if violations > 0 {
        1
    } else {
        0
    }
}

pub fn replay(path: &str) -> i32 {
    let text = match std::fs::read_to_string(path) {
        Ok(t) => t,
        Err(e) => {
            eprintln!("cannot read {}: {}", path, e);
            return 2;
        }
    };
    let trace = match Trace::from_json(&text) {
        Ok(t) => t,
        Err(e) => {
            eprintln!("cannot parse {}: {}", path, e);
            return 2;
        }
    };
    // (a replayed hang hangs again: the run gets the same wall-clock allowance as in a batch)
    let (tx, rx) = std::sync::mpsc::channel();
    let t2 = trace.clone();
    std::thread::spawn(move || {
        let _ = tx.send(run_one(&t2));
    });
    let res = match rx.recv_timeout(std::time::Duration::from_secs(STALL_SECS)) {
        Ok(r) => r,
        Err(_) => {
            println!("violation: check={}.hang site=watchdog message=the replayed run made no progress for {} s", trace.property, STALL_SECS);
            println!("VIOLATION property={} replay={}", trace.property, path);
            return 1;
        }
    };
    let want = trace.check.clone();
    let hit = res.violations.iter().find(|v| match &want {
        Some(c) => &v.check == c,
        None => v.property() == trace.property,
    });
    for v in res.violations.iter() {
        println!("violation: check={} site={} op_id={} message={}", v.check, v.site, v.op_id, v.message);
    }
    match hit {
        Some(_) => {
            println!("VIOLATION property={} replay={}", trace.property, path);
            1
        }
        None => {
            println!("replay of {} did not reproduce {:?}", path, want);
            0
        }
    }
}
