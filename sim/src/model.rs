//! Reference model: a plain in-memory relational database, a stream map and
//! summary properties.  Predicts Ok/Err for the "plain" family only.

use crate::names;
use crate::ops::*;
use std::cmp::Ordering;
use std::collections::BTreeMap;

#[derive(Clone, Copy, Debug, PartialEq, Eq)]
pub enum Expect {
    Ok,
    Err,
    /// The model does not say; whatever happens must be self-consistent
    /// (accepted => observable exactly as requested; refused => unchanged).
    Either,
}

pub const CATEGORIES: [&str; 26] = [
    "Text", "UpperCase", "LowerCase", "Integer", "DoubleInteger", "TimeDate", "Identifier",
    "Property", "Filename", "WildCardFilename", "Path", "Paths", "AnyPath", "DefaultDir",
    "RegPath", "Formatted", "FormattedSDDLText", "Template", "Condition", "GUID", "Version",
    "Language", "Binary", "CustomSource", "Cabinet", "Shortcut",
];

pub const MAX_ROWS: usize = 65536;

#[derive(Clone, Debug, PartialEq)]
pub struct TableM {
    pub cols: Vec<ColSpec>,
    pub rows: Vec<Vec<Val>>,
    /// rows are known to be in ascending key order (false for tables that
    /// came unsorted from a foreign file and were not rewritten by an insert)
    pub ordered: bool,
    /// rows must match in exact sequence (false once an unordered table has
    /// been rewritten by update/delete, until an insert sorts it)
    pub exact_seq: bool,
    pub plain: bool,
    pub catalog: bool,
}

impl TableM {
    pub fn key_idx(&self) -> Vec<usize> {
        self.cols.iter().enumerate().filter(|(_, c)| c.key).map(|(i, _)| i).collect()
    }
    pub fn key_of(&self, row: &[Val]) -> Vec<Val> {
        self.key_idx().iter().map(|&i| row[i].clone()).collect()
    }
    pub fn col_index(&self, name: &str) -> Option<usize> {
        self.cols.iter().position(|c| c.name == name)
    }
    pub fn sort(&mut self) {
        let idx = self.key_idx();
        self.rows.sort_by(|a, b| {
            for &i in idx.iter() {
                let c = val_cmp(&a[i], &b[i]);
                if c != Ordering::Equal {
                    return c;
                }
            }
            Ordering::Equal
        });
    }
}

#[derive(Clone, Debug, PartialEq)]
pub struct StreamM {
    /// spellings written since the last removal (the listing may show any)
    pub names: Vec<String>,
    pub data: Vec<u8>,
}

#[derive(Clone, Debug, PartialEq)]
pub enum SStr {
    Exact(String),
    /// not representable in the summary code page at the last save: only
    /// the length in characters is required to survive
    Lossy(usize),
}

#[derive(Clone, Debug, PartialEq, Default)]
pub struct SummaryM {
    pub strs: BTreeMap<u8, SStr>, // SumField as u8
    pub uuid: Option<u128>,
    pub word_count: Option<i32>,
    pub time: Option<(i64, u32)>,
    pub arch: Option<SStr>,
    pub langs: Vec<u16>,
    pub template_set: bool,
    pub codepage: u32,
    /// properties of a foreign file that the API has no accessor for
    /// (id, type tag, text or number): they must survive a rewrite
    pub extra: Vec<(u32, ExtraVal)>,
}

#[derive(Clone, Debug, PartialEq)]
pub enum ExtraVal {
    Str(String),
    /// a string that some save could not represent: only its length survives
    Lossy(usize),
    /// any non-string value, rendered as `Type(value)`
    Other(String),
}

pub fn field_idx(f: SumField) -> u8 {
    match f {
        SumField::Title => 0,
        SumField::Subject => 1,
        SumField::Author => 2,
        SumField::Comments => 3,
        SumField::App => 4,
    }
}

#[derive(Clone, Debug, PartialEq)]
pub struct Model {
    pub ptype: PType,
    pub db_cp: u32,
    pub tables: BTreeMap<String, TableM>,
    pub streams: BTreeMap<(usize, String), StreamM>,
    pub summary: SummaryM,
    pub sig: bool,
    pub sig_ex: bool,
    pub docsum: bool,
    /// live string budget with two-byte references (None = three-byte refs)
    pub pool_slots: Option<usize>,
    /// strings whose 16-bit reference count arrived saturated: one more
    /// reference needs a second pool entry, which the model does not count
    pub saturated: Vec<String>,
}

// ------------------------------------------------------------ schema helpers

pub fn type_word(c: &ColSpec) -> i32 {
    let mut bits: i32 = 0x100;
    match c.ty {
        CType::I16 => bits |= 0x2 | 0x400,
        CType::I32 => bits |= 0x4,
        CType::Str(w) => {
            bits |= 0x800 | (w as i32);
            if !(w == 0 && c.category.as_deref() == Some("Binary")) {
                bits |= 0x400;
            }
        }
    }
    if c.localizable {
        bits |= 0x200;
    }
    if c.nullable {
        bits |= 0x1000;
    }
    if c.key {
        bits |= 0x2000;
    }
    bits
}

pub fn validation_cols() -> Vec<ColSpec> {
    let min = -0x7fff_ffff;
    let max = 0x7fff_ffff;
    let cats: Vec<&str> = CATEGORIES.to_vec();
    vec![
        ColSpec::new("Table", CType::Str(32)).key().cat("Identifier"),
        ColSpec::new("Column", CType::Str(32)).key().cat("Identifier"),
        ColSpec::new("Nullable", CType::Str(4)).enums(&["Y", "N"]),
        ColSpec::new("MinValue", CType::I32).nullable().range(min, max),
        ColSpec::new("MaxValue", CType::I32).nullable().range(min, max),
        ColSpec::new("KeyTable", CType::Str(255)).nullable().cat("Identifier"),
        ColSpec::new("KeyColumn", CType::I16).nullable().range(1, 32),
        ColSpec::new("Category", CType::Str(32)).nullable().enums(&cats),
        ColSpec::new("Set", CType::Str(255)).nullable().cat("Text"),
        ColSpec::new("Description", CType::Str(255)).nullable().cat("Text"),
    ]
}

pub fn tables_cols() -> Vec<ColSpec> {
    vec![ColSpec::new("Name", CType::Str(64)).key()]
}

pub fn columns_cols() -> Vec<ColSpec> {
    vec![
        ColSpec::new("Table", CType::Str(64)).key(),
        ColSpec::new("Number", CType::I16).key(),
        ColSpec::new("Name", CType::Str(64)),
        ColSpec::new("Type", CType::I16),
    ]
}

pub fn validation_row(table: &str, c: &ColSpec) -> Vec<Val> {
    let (mn, mx) = match c.range {
        Some((a, b)) => (Val::Int(a), Val::Int(b)),
        None => (Val::Null, Val::Null),
    };
    let (kt, kc) = match &c.fk {
        Some((t, n)) => (Val::Str(t.clone()), Val::Int(*n)),
        None => (Val::Null, Val::Null),
    };
    vec![
        Val::Str(table.to_string()),
        Val::Str(c.name.clone()),
        Val::Str(if c.nullable { "Y" } else { "N" }.to_string()),
        mn,
        mx,
        kt.norm(),
        kc,
        match &c.category {
            Some(s) => Val::Str(s.clone()),
            None => Val::Null,
        },
        if c.enums.is_empty() { Val::Null } else { Val::Str(c.enums.join(";")).norm() },
        Val::Null,
    ]
}

/// Category grammars the model implements itself.
fn category_ok(cat: &str, s: &str) -> Option<bool> {
    Some(match cat {
        "Text" => true,
        "UpperCase" => !s.chars().any(|c| c.is_ascii_lowercase()),
        "LowerCase" => !s.chars().any(|c| c.is_ascii_uppercase()),
        "Identifier" => names::is_identifier(s),
        _ => return None,
    })
}

/// A column whose accept/reject behaviour the model predicts.
pub fn col_is_plain(c: &ColSpec) -> bool {
    if !names::is_identifier(&c.name) || c.name.chars().count() > 32 {
        return false;
    }
    match c.ty {
        CType::I16 | CType::I32 => {
            if c.category.is_some() || !c.enums.is_empty() {
                return false;
            }
            if let Some((a, b)) = c.range {
                if a < -0x7fff_ffff || b < -0x7fff_ffff {
                    return false;
                }
            }
        }
        CType::Str(w) => {
            if w > 255 {
                return false;
            }
            if let Some((a, b)) = c.range {
                if a < -0x7fff_ffff || b < -0x7fff_ffff {
                    return false;
                }
            }
            if let Some(cat) = &c.category {
                if category_ok(cat, "x").is_none() {
                    return false;
                }
            }
            if !c.enums.is_empty() {
                let joined = c.enums.join(";");
                // an empty value or one with the separator may be refused
                // (or must survive exactly): the model does not predict it
                if c.enums.iter().any(|e| e.is_empty() || e.contains(';'))
                    || joined.chars().count() > 255
                    || !joined.is_ascii()
                {
                    return false;
                }
            }
        }
    }
    if let Some((t, n)) = &c.fk {
        if !names::is_identifier(t) || t.chars().count() > 255 || *n < 1 || *n > 32 {
            return false;
        }
    }
    true
}

pub fn value_valid(c: &ColSpec, v: &Val) -> bool {
    match v {
        Val::Null => c.nullable,
        Val::Int(n) => {
            if let Some((a, b)) = c.range {
                if *n < a || *n > b {
                    return false;
                }
            }
            match c.ty {
                CType::I16 => *n >= -32767 && *n <= 32767,
                CType::I32 => *n > i32::MIN,
                CType::Str(_) => false,
            }
        }
        Val::Str(s) => match c.ty {
            CType::I16 | CType::I32 => false,
            CType::Str(w) => {
                if let Some(cat) = &c.category {
                    if category_ok(cat, s) == Some(false) {
                        return false;
                    }
                }
                if !c.enums.is_empty() && !c.enums.iter().any(|e| e == s) {
                    return false;
                }
                w == 0 || s.chars().count() <= w as usize
            }
        },
    }
}

/// Validity of a *stored* cell (after ""/null unification): a null in a
/// non-nullable string column is judged as the empty string.
pub fn stored_cell_valid(c: &ColSpec, v: &Val) -> bool {
    match (v, c.ty) {
        (Val::Null, CType::Str(_)) if !c.nullable => value_valid(c, &Val::Str(String::new())),
        _ => value_valid(c, v),
    }
}

// ------------------------------------------------------------ conditions

pub fn eval_cond(cond: &Cond, t: &TableM, row: &[Val]) -> bool {
    match cond {
        Cond::Cmp(col, op, lit) => {
            let i = t.col_index(col).expect("validated");
            let c = val_cmp(&row[i], lit);
            match op {
                CmpOp::Eq => c == Ordering::Equal,
                CmpOp::Ne => c != Ordering::Equal,
                CmpOp::Lt => c == Ordering::Less,
                CmpOp::Le => c != Ordering::Greater,
                CmpOp::Gt => c == Ordering::Greater,
                CmpOp::Ge => c != Ordering::Less,
            }
        }
        Cond::Arith(col, aop, l, op, rhs) => {
            let i = t.col_index(col).expect("validated");
            let v = arith(&row[i], *aop, l);
            let c = val_cmp(&v, rhs);
            match op {
                CmpOp::Eq => c == Ordering::Equal,
                CmpOp::Ne => c != Ordering::Equal,
                CmpOp::Lt => c == Ordering::Less,
                CmpOp::Le => c != Ordering::Greater,
                CmpOp::Gt => c == Ordering::Greater,
                CmpOp::Ge => c != Ordering::Less,
            }
        }
        Cond::Truthy(col) => row[t.col_index(col).expect("validated")].truthy(),
        Cond::Const(b) => *b,
        Cond::And(a, b) => eval_cond(a, t, row) && eval_cond(b, t, row),
        Cond::Or(a, b) => eval_cond(a, t, row) || eval_cond(b, t, row),
        Cond::Not(a) => !eval_cond(a, t, row),
        Cond::CmpBool(a, op, lit) => {
            // logical operators and comparisons yield the integers 1 and 0
            let v = Val::Int(if eval_cond(a, t, row) { 1 } else { 0 });
            let c = val_cmp(&v, lit);
            match op {
                CmpOp::Eq => c == Ordering::Equal,
                CmpOp::Ne => c != Ordering::Equal,
                CmpOp::Lt => c == Ordering::Less,
                CmpOp::Le => c != Ordering::Greater,
                CmpOp::Gt => c == Ordering::Greater,
                CmpOp::Ge => c != Ordering::Less,
            }
        }
    }
}

fn cond_cols_ok(cond: &Option<Cond>, t: &TableM) -> bool {
    if let Some(c) = cond {
        let mut cols = Vec::new();
        c.columns(&mut cols);
        cols.iter().all(|n| t.col_index(n).is_some())
    } else {
        true
    }
}

// ------------------------------------------------------------ the model

pub struct SelectResult {
    pub col_names: Vec<String>,
    pub rows: Vec<Vec<Val>>,
    pub exact_seq: bool,
}

impl Model {
    pub fn new_created(ptype: PType) -> Model {
        let mut m = Model {
            ptype,
            db_cp: 65001,
            tables: BTreeMap::new(),
            streams: BTreeMap::new(),
            summary: SummaryM { codepage: 65001, ..Default::default() },
            sig: false,
            sig_ex: false,
            docsum: false,
            pool_slots: Some(65535),
            saturated: Vec::new(),
        };
        let title = match ptype {
            PType::Installer => "Installation Database",
            PType::Patch => "Patch",
            PType::Transform => "Transform",
        };
        m.summary.strs.insert(0, SStr::Exact(title.to_string()));
        let cat = |cols: Vec<ColSpec>| TableM {
            cols,
            rows: Vec::new(),
            ordered: true,
            exact_seq: true,
            plain: false,
            catalog: true,
        };
        m.tables.insert("_Tables".into(), cat(tables_cols()));
        m.tables.insert("_Columns".into(), cat(columns_cols()));
        m.register_table("_Validation", validation_cols());
        m.tables.get_mut("_Validation").unwrap().catalog = true;
        m.tables.get_mut("_Validation").unwrap().plain = false;
        m
    }

    pub fn has_validation(&self) -> bool {
        self.tables.contains_key("_Validation")
    }

    fn cat_insert(&mut self, table: &str, row: Vec<Val>) {
        if let Some(t) = self.tables.get_mut(table) {
            t.rows.push(row);
            t.sort();
            t.ordered = true;
            t.exact_seq = true;
        }
    }

    fn register_table(&mut self, name: &str, cols: Vec<ColSpec>) {
        for (i, c) in cols.iter().enumerate() {
            self.cat_insert(
                "_Columns",
                vec![
                    Val::Str(name.to_string()),
                    Val::Int(i as i32 + 1),
                    Val::Str(c.name.clone()),
                    Val::Int(type_word(c)),
                ],
            );
        }
        self.cat_insert("_Tables", vec![Val::Str(name.to_string())]);
        let plain = cols.iter().all(col_is_plain) && name.chars().count() <= 32;
        let vrows: Vec<Vec<Val>> = cols.iter().map(|c| validation_row(name, c)).collect();
        self.tables.insert(
            name.to_string(),
            TableM { cols, rows: Vec::new(), ordered: true, exact_seq: true, plain, catalog: false },
        );
        for r in vrows {
            self.cat_insert("_Validation", r);
        }
    }

    pub fn expect_create_table(&self, name: &str, cols: &[ColSpec]) -> Expect {
        if !names::table_name_ok(name) || cols.is_empty() || cols.len() > 32 {
            return Expect::Err;
        }
        // the pool's two streams are named like table streams: no table may take their names
        if name == "_StringPool" || name == "_StringData" {
            return Expect::Err;
        }
        if !cols.iter().any(|c| c.key) {
            return Expect::Err;
        }
        for (i, c) in cols.iter().enumerate() {
            if !names::is_identifier(&c.name) {
                return Expect::Err;
            }
            if cols[..i].iter().any(|d| d.name == c.name) {
                return Expect::Err;
            }
        }
        if self.tables.contains_key(name) {
            return Expect::Err;
        }
        if !self.has_validation() {
            return Expect::Either;
        }
        // a file from another tool may describe, in _Validation, tables it
        // does not contain: the new rows would collide with those
        if let Some(v) = self.tables.get("_Validation") {
            for c in cols.iter() {
                let key = [Val::Str(name.to_string()), Val::Str(c.name.clone())];
                if v.rows.iter().any(|r| r[0] == key[0] && r[1] == key[1]) {
                    return Expect::Err;
                }
            }
        }
        if name.chars().count() > 32 || !cols.iter().all(col_is_plain) {
            return Expect::Either;
        }
        // the catalog tables are tables too: 65,536 rows each
        for cat in ["_Validation", "_Columns"] {
            if let Some(t) = self.tables.get(cat) {
                if t.rows.len() + cols.len() > MAX_ROWS {
                    return Expect::Err;
                }
            }
        }
        if let Some(t) = self.tables.get("_Tables") {
            if t.rows.len() + 1 > MAX_ROWS {
                return Expect::Err;
            }
        }
        // the catalog rows intern strings too
        Expect::Ok
    }

    pub fn apply_create_table(&mut self, name: &str, cols: &[ColSpec]) {
        self.register_table(name, cols.to_vec());
    }

    pub fn expect_drop_table(&self, name: &str) -> Expect {
        if name == "_Tables" || name == "_Columns" || name == "_Validation" {
            return Expect::Err;
        }
        if !names::table_name_ok(name) || !self.tables.contains_key(name) {
            return Expect::Err;
        }
        Expect::Ok
    }

    pub fn apply_drop_table(&mut self, name: &str) {
        self.tables.remove(name);
        for cat in ["_Tables", "_Columns", "_Validation"] {
            if let Some(t) = self.tables.get_mut(cat) {
                t.rows.retain(|r| r[0] != Val::Str(name.to_string()));
            }
        }
    }

    /// Ok(new table contents) or Err.
    pub fn plan_insert(&self, table: &str, rows: &[Vec<Val>]) -> Result<TableM, ()> {
        let t = self.tables.get(table).ok_or(())?;
        for r in rows {
            if r.len() != t.cols.len() {
                return Err(());
            }
            for (c, v) in t.cols.iter().zip(r.iter()) {
                if !value_valid(c, v) {
                    return Err(());
                }
            }
        }
        let mut nt = t.clone();
        let idx = nt.key_idx();
        let keyf = |r: &Vec<Val>| -> Vec<Val> { idx.iter().map(|&i| r[i].clone()).collect() };
        let mut keys: std::collections::HashSet<Vec<Val>> = std::collections::HashSet::new();
        // a malformed (foreign) table with duplicate keys cannot be inserted into
        for r in nt.rows.iter() {
            if !keys.insert(keyf(r)) {
                return Err(());
            }
        }
        for r in rows {
            let nr: Vec<Val> = r.iter().cloned().map(Val::norm).collect();
            if !keys.insert(keyf(&nr)) {
                return Err(());
            }
            nt.rows.push(nr);
        }
        if nt.rows.len() > MAX_ROWS {
            return Err(());
        }
        nt.sort();
        nt.ordered = true;
        nt.exact_seq = true;
        Ok(nt)
    }

    pub fn plan_update(
        &self,
        table: &str,
        sets: &[(String, Val)],
        cond: &Option<Cond>,
    ) -> Result<TableM, ()> {
        let t = self.tables.get(table).ok_or(())?;
        for (cn, v) in sets {
            let i = t.col_index(cn).ok_or(())?;
            if !value_valid(&t.cols[i], v) {
                return Err(());
            }
        }
        if !cond_cols_ok(cond, t) {
            return Err(());
        }
        let mut nt = t.clone();
        let mut touched_key = false;
        for r in nt.rows.iter_mut() {
            let hit = match cond {
                Some(c) => eval_cond(c, t, r),
                None => true,
            };
            if hit {
                for (cn, v) in sets {
                    let i = t.col_index(cn).unwrap();
                    if t.cols[i].key && r[i] != v.clone().norm() {
                        touched_key = true;
                    }
                    r[i] = v.clone().norm();
                }
            }
        }
        if touched_key {
            let idx = nt.key_idx();
            let mut keys: std::collections::HashSet<Vec<Val>> = std::collections::HashSet::new();
            for r in nt.rows.iter() {
                let k: Vec<Val> = idx.iter().map(|&i| r[i].clone()).collect();
                if !keys.insert(k) {
                    return Err(());
                }
            }
            if nt.ordered {
                nt.sort();
            }
        }
        if !nt.ordered {
            nt.exact_seq = false;
        }
        Ok(nt)
    }

    pub fn plan_delete(&self, table: &str, cond: &Option<Cond>) -> Result<TableM, ()> {
        let t = self.tables.get(table).ok_or(())?;
        if !cond_cols_ok(cond, t) {
            return Err(());
        }
        let mut nt = t.clone();
        nt.rows.retain(|r| match cond {
            Some(c) => !eval_cond(c, t, r),
            None => false,
        });
        if !nt.ordered {
            nt.exact_seq = false;
        }
        Ok(nt)
    }

    pub fn plan_select(
        &self,
        table: &str,
        cols: &[String],
        cond: &Option<Cond>,
    ) -> Result<SelectResult, ()> {
        let t = self.tables.get(table).ok_or(())?;
        let mut idx = Vec::new();
        for c in cols {
            idx.push(t.col_index(c).ok_or(())?);
        }
        if !cond_cols_ok(cond, t) {
            return Err(());
        }
        let rows: Vec<Vec<Val>> = t
            .rows
            .iter()
            .filter(|r| match cond {
                Some(c) => eval_cond(c, t, r),
                None => true,
            })
            .map(|r| {
                if idx.is_empty() {
                    r.clone()
                } else {
                    idx.iter().map(|&i| r[i].clone()).collect()
                }
            })
            .collect();
        let col_names = if idx.is_empty() {
            t.cols.iter().map(|c| c.name.clone()).collect()
        } else {
            idx.iter().map(|&i| t.cols[i].name.clone()).collect()
        };
        Ok(SelectResult { col_names, rows, exact_seq: t.exact_seq })
    }

    // -------------------------------------------------------- streams

    pub fn expect_write_stream(&self, name: &str) -> Expect {
        if !names::stream_name_fits(name) {
            return Expect::Err;
        }
        if name.starts_with(names::TABLE_MARK) {
            return Expect::Err;
        }
        if !names::stream_name_plain(name) {
            return Expect::Either;
        }
        Expect::Ok
    }

    pub fn expect_existing_stream(&self, name: &str) -> Expect {
        if !names::stream_name_fits(name) || name.starts_with(names::TABLE_MARK) {
            return Expect::Err;
        }
        if !names::stream_name_plain(name) {
            return Expect::Either;
        }
        if self.streams.contains_key(&names::stream_key(name)) {
            Expect::Ok
        } else {
            Expect::Err
        }
    }

    pub fn apply_write_stream(&mut self, name: &str, dseed: u32, steps: &[WStep]) {
        let key = names::stream_key(name);
        // create_stream truncates an existing stream
        let mut data = Vec::new();
        apply_wsteps(dseed, steps, &mut data);
        let e = self.streams.entry(key).or_insert(StreamM { names: Vec::new(), data: Vec::new() });
        if !e.names.iter().any(|n| n == name) {
            e.names.push(name.to_string());
        }
        e.data = data;
    }

    pub fn apply_remove_stream(&mut self, name: &str) {
        self.streams.remove(&names::stream_key(name));
    }

    // -------------------------------------------------------- summary

    pub fn apply_summary(&mut self, op: &SumOp) {
        let s = &mut self.summary;
        match op {
            SumOp::SetStr(f, v) => {
                s.strs.insert(field_idx(*f), SStr::Exact(v.clone()));
            }
            SumOp::ClearStr(f) => {
                s.strs.remove(&field_idx(*f));
            }
            SumOp::SetUuid(u) => s.uuid = Some(*u),
            SumOp::ClearUuid => s.uuid = None,
            SumOp::SetWordCount(n) => s.word_count = Some(*n),
            SumOp::ClearWordCount => s.word_count = None,
            SumOp::SetTime(a, b) => s.time = Some((*a, *b)),
            SumOp::ClearTime => s.time = None,
            SumOp::SetArch(a) => {
                s.arch = if a.is_empty() { None } else { Some(SStr::Exact(a.clone())) };
                s.template_set = true;
            }
            SumOp::ClearArch => {
                s.arch = None;
                s.template_set = true;
            }
            SumOp::SetLangs(l) => {
                s.langs = l.clone();
                s.template_set = true;
            }
            SumOp::ClearLangs => {
                s.langs = Vec::new();
                s.template_set = true;
            }
            SumOp::SetCodepage(cp) => s.codepage = *cp,
        }
    }

    /// What saving does to values the chosen code pages cannot represent.
    pub fn on_save(&mut self) {
        let cp = self.summary.codepage;
        for v in self.summary.strs.values_mut() {
            if let SStr::Exact(s) = v {
                if !crate::cp::representable(cp, s) {
                    *v = SStr::Lossy(s.chars().count());
                }
            }
        }
        for (_, e) in self.summary.extra.iter_mut() {
            if let ExtraVal::Str(s) = e {
                if !crate::cp::representable(cp, s) {
                    *e = ExtraVal::Lossy(s.chars().count());
                }
            }
        }
        if let Some(SStr::Exact(s)) = &self.summary.arch {
            if !crate::cp::representable(cp, s) {
                self.summary.arch = Some(SStr::Lossy(s.chars().count()));
            }
        }
    }

    /// All string cell values currently live (for the dead-text check).
    pub fn live_strings(&self) -> std::collections::HashSet<&str> {
        let mut out = std::collections::HashSet::new();
        for t in self.tables.values() {
            for r in t.rows.iter() {
                for v in r.iter() {
                    if let Val::Str(s) = v {
                        out.insert(s.as_str());
                    }
                }
            }
        }
        out
    }

    /// Number of distinct live strings if `table` were replaced by `nt`.
    pub fn distinct_strings_with(&self, table: &str, nt: &TableM) -> usize {
        let mut out = std::collections::HashSet::new();
        for (n, t) in self.tables.iter() {
            let t = if n == table { nt } else { t };
            for r in t.rows.iter() {
                for v in r.iter() {
                    if let Val::Str(s) = v {
                        out.insert(s.as_str());
                    }
                }
            }
        }
        out.len()
    }

    pub fn user_tables(&self) -> Vec<&String> {
        self.tables.iter().filter(|(_, t)| !t.catalog).map(|(n, _)| n).collect()
    }

    /// Cheap fingerprint of the abstract state (evidence: distinct states).
    pub fn fingerprint(&self) -> u64 {
        use crate::prng::{hash_str, mix};
        let mut h = mix(&[self.db_cp as u64, self.ptype as u64, self.summary.codepage as u64]);
        for (n, t) in self.tables.iter() {
            if t.catalog {
                continue;
            }
            h = mix(&[h, hash_str(n), t.cols.len() as u64, t.rows.len() as u64]);
            for r in t.rows.iter() {
                for v in r.iter() {
                    h = mix(&[
                        h,
                        match v {
                            Val::Null => 0,
                            Val::Int(i) => *i as u32 as u64 + 1,
                            Val::Str(s) => hash_str(s),
                        },
                    ]);
                }
            }
        }
        for (k, s) in self.streams.iter() {
            h = mix(&[h, hash_str(&k.1), s.data.len() as u64]);
        }
        h = mix(&[h, self.summary.strs.len() as u64, self.summary.langs.len() as u64]);
        h
    }
}
