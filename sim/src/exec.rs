//! Executes an explicit trace against the real library on a simulated disk,
//! in lockstep with the reference model, evaluating every oracle.

use crate::codec;
use crate::decodecheck;
use crate::disk::*;
use crate::model::*;
use crate::ops::*;
use crate::prng::{mix, Prng};
use crate::snapshot::{self, Area, Diff, Snap};
use msi::{Category, CodePage, Column, Delete, Expr, Insert, Language, Package, PackageType, Select, Update, Value};
use std::cell::RefCell;
use std::collections::BTreeMap;
use std::io::{Read, Seek, SeekFrom, Write};
use std::panic::{catch_unwind, AssertUnwindSafe};
use std::rc::Rc;

#[derive(Clone, Debug)]
pub struct Violation {
    pub check: String,
    pub site: String,
    pub message: String,
    pub op_id: u32,
}

impl Violation {
    pub fn property(&self) -> &str {
        &self.check[..3]
    }
    pub fn signature(&self) -> String {
        format!("{}/{}", self.check, self.site)
    }
}

#[derive(Clone, Debug, Default)]
pub struct RunStats {
    pub ops: u64,
    pub mutations_ok: u64,
    pub rejected: u64,
    pub oracle_evals: u64,
    pub snapshots: u64,
    pub decodes: u64,
    pub restarts: u64,
    pub disk: DiskStats,
    pub probes: BTreeMap<&'static str, u64>,
    pub states: Vec<u64>,
    pub digest: u64,
    pub rejected_ids: Vec<u32>,
    pub tainted: bool,
    /// medium events per operation: (op id, [read, write, seek, flush])
    pub op_events: Vec<(u32, [u32; 4])>,
    pub final_len: u64,
}

impl RunStats {
    pub fn probe(&mut self, name: &'static str) {
        *self.probes.entry(name).or_insert(0) += 1;
    }
    pub fn probe_n(&mut self, name: &'static str, n: u64) {
        if n > 0 {
            *self.probes.entry(name).or_insert(0) += n;
        }
    }
}

pub struct RunResult {
    pub violations: Vec<Violation>,
    pub stats: RunStats,
    pub final_image: Option<Vec<u8>>,
    pub model: Option<Model>,
}

// ------------------------------------------------------------ panic capture

thread_local! {
    static LAST_PANIC: RefCell<Option<(String, String)>> = const { RefCell::new(None) };
    static CAPTURING: RefCell<bool> = const { RefCell::new(false) };
}

pub fn install_panic_hook() {
    let prev = std::panic::take_hook();
    std::panic::set_hook(Box::new(move |info| {
        let capturing = CAPTURING.with(|c| *c.borrow());
        if capturing {
            let loc = info
                .location()
                .map(|l| {
                    let f = l.file();
                    let short = match f.rfind("/src/") {
                        Some(i) => {
                            let head = &f[..i];
                            let krate = head.rsplit('/').next().unwrap_or("");
                            format!("{}{}", krate, &f[i..])
                        }
                        None => f.to_string(),
                    };
                    format!("{}:{}", short, l.line())
                })
                .unwrap_or_else(|| "?".into());
            let msg = if let Some(s) = info.payload().downcast_ref::<&str>() {
                s.to_string()
            } else if let Some(s) = info.payload().downcast_ref::<String>() {
                s.clone()
            } else {
                "<non-string panic>".to_string()
            };
            LAST_PANIC.with(|p| *p.borrow_mut() = Some((loc, msg)));
        } else {
            prev(info);
        }
    }));
}

pub enum Caught<T> {
    Val(T),
    Panic(String, String),
}

pub fn guarded<T>(f: impl FnOnce() -> T) -> Caught<T> {
    CAPTURING.with(|c| *c.borrow_mut() = true);
    let r = catch_unwind(AssertUnwindSafe(f));
    CAPTURING.with(|c| *c.borrow_mut() = false);
    match r {
        Ok(v) => Caught::Val(v),
        Err(_) => {
            let (loc, msg) = LAST_PANIC.with(|p| p.borrow_mut().take()).unwrap_or(("?".into(), "?".into()));
            Caught::Panic(loc, msg)
        }
    }
}

// ------------------------------------------------------------ conversions

pub fn build_col(c: &ColSpec) -> Column {
    let mut b = Column::build(c.name.as_str());
    if c.nullable {
        b = b.nullable();
    }
    if c.key {
        b = b.primary_key();
    }
    if c.localizable {
        b = b.localizable();
    }
    if let Some((a, z)) = c.range {
        b = b.range(a, z);
    }
    if let Some((t, n)) = &c.fk {
        b = b.foreign_key(t, *n);
    }
    if let Some(cat) = &c.category {
        if let Ok(k) = cat.parse::<Category>() {
            b = b.category(k);
        }
    }
    if !c.enums.is_empty() {
        let e: Vec<&str> = c.enums.iter().map(|s| s.as_str()).collect();
        b = b.enum_values(&e);
    }
    match c.ty {
        CType::I16 => b.int16(),
        CType::I32 => b.int32(),
        CType::Str(w) => b.string(w as usize),
    }
}

fn lit(v: &Val) -> Expr {
    match v {
        Val::Null => Expr::null(),
        Val::Int(i) => Expr::integer(*i),
        Val::Str(s) => Expr::string(s.as_str()),
    }
}

pub fn cond_expr(c: &Cond) -> Expr {
    match c {
        Cond::Cmp(col, op, v) => {
            let l = Expr::col(col.as_str());
            let r = lit(v);
            match op {
                CmpOp::Eq => l.eq(r),
                CmpOp::Ne => l.ne(r),
                CmpOp::Lt => l.lt(r),
                CmpOp::Le => l.le(r),
                CmpOp::Gt => l.gt(r),
                CmpOp::Ge => l.ge(r),
            }
        }
        Cond::Arith(col, aop, l, op, rhs) => {
            let c = Expr::col(col.as_str());
            let a = match aop {
                AOp::Add => c + lit(l),
                AOp::Sub => c - lit(l),
                AOp::Mul => c * lit(l),
                AOp::Div => c / lit(l),
                AOp::And => c & lit(l),
                AOp::Or => c | lit(l),
                AOp::Xor => c ^ lit(l),
                AOp::Shl => c << lit(l),
                AOp::Shr => c >> lit(l),
                AOp::Neg => -c,
                AOp::Inv => c.bitinv(),
            };
            let r = lit(rhs);
            match op {
                CmpOp::Eq => a.eq(r),
                CmpOp::Ne => a.ne(r),
                CmpOp::Lt => a.lt(r),
                CmpOp::Le => a.le(r),
                CmpOp::Gt => a.gt(r),
                CmpOp::Ge => a.ge(r),
            }
        }
        Cond::Truthy(col) => Expr::col(col.as_str()),
        Cond::Const(b) => Expr::boolean(*b),
        Cond::And(a, b) => cond_expr(a).and(cond_expr(b)),
        Cond::Or(a, b) => cond_expr(a).or(cond_expr(b)),
        Cond::Not(a) => cond_expr(a).not(),
        Cond::CmpBool(a, op, v) => {
            let l = cond_expr(a);
            let r = lit(v);
            match op {
                CmpOp::Eq => l.eq(r),
                CmpOp::Ne => l.ne(r),
                CmpOp::Lt => l.lt(r),
                CmpOp::Le => l.le(r),
                CmpOp::Gt => l.gt(r),
                CmpOp::Ge => l.ge(r),
            }
        }
    }
}

fn ptype_of(p: PType) -> PackageType {
    match p {
        PType::Installer => PackageType::Installer,
        PType::Patch => PackageType::Patch,
        PType::Transform => PackageType::Transform,
    }
}

fn hex_decode(s: &str) -> Vec<u8> {
    let b = s.as_bytes();
    let mut out = Vec::with_capacity(b.len() / 2);
    let h = |c: u8| -> u8 {
        match c {
            b'0'..=b'9' => c - b'0',
            b'a'..=b'f' => c - b'a' + 10,
            b'A'..=b'F' => c - b'A' + 10,
            _ => 0,
        }
    };
    let mut i = 0;
    while i + 1 < b.len() {
        out.push((h(b[i]) << 4) | h(b[i + 1]));
        i += 2;
    }
    out
}

pub fn hex_encode(b: &[u8]) -> String {
    let mut s = String::with_capacity(b.len() * 2);
    for x in b {
        s.push_str(&format!("{:02x}", x));
    }
    s
}

// ------------------------------------------------------------ executor

#[derive(Clone, Copy, PartialEq, Eq, Debug)]
enum Phase {
    Now,
    Reopen,
    CrashAfterFlush,
    FirstOpen,
}

pub struct ExecCfg {
    /// evaluate oracles (false: just drive the implementation, e.g. twin runs)
    pub oracles: bool,
    /// always end with an into_inner and keep the image
    pub keep_final: bool,
}

impl Default for ExecCfg {
    fn default() -> ExecCfg {
        ExecCfg { oracles: true, keep_final: false }
    }
}

struct Exec<'a> {
    trace: &'a Trace,
    cfg: &'a ExecCfg,
    model: Model,
    disk: Rc<RefCell<DiskState>>,
    pkg: Option<Package<SimDisk>>,
    /// live writers: (handle, name, data seed, steps so far, unflushed data)
    writers: BTreeMap<u8, (msi::StreamWriter<SimDisk>, String, u32, Vec<WStep>, bool)>,
    violations: Vec<Violation>,
    stats: RunStats,
    /// model conformance no longer applies (corruption, crash without flush,
    /// or a call already reported an injected fault)
    tainted: bool,
    /// pool accounting expected to be exact
    exact_pool: bool,
    library_lineage: bool,
    foreign: bool,
    limits: bool,
    script: bool,
    reject: bool,
    cur_id: u32,
    done: bool,
    any_hard_fault: bool,
    carry_ord: [u32; 4],
    /// a directory entry was deleted while a handle on another stream was live
    deleted_under_handle: bool,
    /// an oracle over the saved bytes has failed already (reported once)
    byte_level_failed: bool,
    /// C16: the image the current session was opened on, while the session
    /// has used read operations only
    session_image: Option<Vec<u8>>,
    /// creation time as the getter reported it just before the last close
    time_before_close: Option<Option<(i64, u32)>>,
    any_hard_fault_non_flush: bool,
    /// the session was opened under full oracles (not after corruption etc.)
    session_clean: bool,
    /// images of earlier restarts of this run (for the lost-write corruption)
    earlier_images: Vec<Vec<u8>>,
    /// a catalog table was edited through a query: the model no longer describes the file
    catalog_edited: bool,
}

fn fault_free() -> DiskCfg {
    DiskCfg::default()
}

impl<'a> Exec<'a> {
    fn viol(&mut self, check: &str, site: &str, msg: String) {
        let (check, site) = if self.deleted_under_handle && !check.starts_with("C09") {
            // one known cause (DESIGN.md section 7): keep it apart from everything else
            ("C11.handle-interleave", "dir-entry-deleted-under-live-handle")
        } else if !self.writers.is_empty() && check.starts_with("C11") && check != "C11.panic" {
            ("C11.handle-interleave", site)
        } else {
            (check, site)
        };
        if self.limits && ["C01.", "C03.", "C05.", "C08."].iter().any(|p| check.starts_with(p)) {
            // a boundary scenario holds only states at or over a limit: what is within must
            // "be accepted and round-trip", so a functional failure there is C20's as well
            self.violations.push(Violation {
                check: "C20.within-limits-wrong".to_string(),
                site: site.to_string(),
                message: format!("[{}] {}", check, msg),
                op_id: self.cur_id,
            });
        }
        self.violations.push(Violation {
            check: check.to_string(),
            site: site.to_string(),
            message: msg,
            op_id: self.cur_id,
        });
    }

    fn aux(&self, salt: u64) -> u64 {
        mix(&[self.trace.knobs.aux_seed, self.cur_id as u64, salt])
    }

    fn faults_in_play(&self) -> bool {
        let d = self.disk.borrow();
        self.any_hard_fault || d.hard_fault_fired || d.ever_hard_fault
    }

    fn panic_violation(&mut self, what: &str, loc: String, msg: String, stream_op: bool) {
        if loc.starts_with("cfb-") && msg.starts_with("attempt to ") && msg.contains("overflow") {
            // Overflow checks are on for the whole simulator build (see
            // Cargo.toml); in the container crate, which users run without
            // them, such a panic is an artefact of that build.  The run ends
            // (the wrapped behaviour cannot be continued) but nothing is claimed.
            self.stats.probe("container_overflow_check_artefact");
            self.tainted = true;
            self.done = true;
            return;
        }
        let site = loc.clone();
        let m = format!("{} panicked at {}: {}", what, loc, msg);
        self.viol("C09.panic", &site, m.clone());
        if stream_op {
            self.viol("C11.panic", &site, m.clone());
        }
        if self.faults_in_play() {
            self.viol("C15.panic", &site, m.clone());
        }
        if self.limits {
            self.viol("C20.panic", &site, m.clone());
        }
        if !self.tainted && !self.faults_in_play() {
            // a well-formed file, a fault-free medium, calls inside the property's own
            // quantifier: the call did not return what the property says it returns
            let own = self.trace.property.clone();
            if ["C01", "C02", "C03", "C04", "C05", "C06", "C08", "C10", "C16"].contains(&own.as_str()) {
                self.viol(&format!("{}.panic", own), &site, m);
            }
        }
        self.done = true;
    }

    fn new_disk(&self, image: Vec<u8>) -> Rc<RefCell<DiskState>> {
        Rc::new(RefCell::new(DiskState::new(image, self.trace.knobs.disk.clone(), self.trace.faults.clone())))
    }

    fn retire_disk(&mut self) {
        let st = self.disk.borrow();
        if [1usize, 2].iter().any(|&k| st.stats.hard_transient[k] != 0 || st.stats.hard_persistent[k] != 0)
            || st.stats.hard_persistent[0] != 0
            || st.stats.storage_full != 0
        {
            self.any_hard_fault_non_flush = true;
        }
        self.carry_ord = st.ord;
        self.stats.final_len = st.view.len() as u64;
        self.stats.disk.add(&st.stats);
        self.stats.digest = mix(&[self.stats.digest, st.digest]);
        if st.hard_fault_fired || st.ever_hard_fault {
            self.any_hard_fault = true;
        }
    }

    // -------------------------------------------------------- observation

    fn map_diffs(&mut self, diffs: Vec<Diff>, phase: Phase) {
        if diffs.is_empty() {
            return;
        }
        let faulty = self.faults_in_play();
        for d in diffs {
            let site = format!("{:?}", d.area);
            let mut checks: Vec<&str> = Vec::new();
            if faulty {
                checks.push(match phase {
                    Phase::Now => "C15.ok-but-wrong-read",
                    _ => "C15.ok-but-lost",
                });
            } else {
                match d.area {
                    Area::Unique => checks.push("C05.unique"),
                    Area::Order => checks.push("C05.order"),
                    Area::CellValid => checks.push("C05.cell-valid"),
                    Area::Api => checks.push("C03.select-len"),
                    _ => {}
                }
                let inv = matches!(d.area, Area::Unique | Area::Order | Area::CellValid);
                match phase {
                    Phase::Now => {
                        if !inv {
                            checks.push("C03.step-eq");
                        }
                        match d.area {
                            Area::Schema | Area::Tables => checks.push("C06.schema-now"),
                            Area::Summary => checks.push("C10.getters-now"),
                            Area::StreamList | Area::Signature => checks.push("C11.listing"),
                            Area::StreamContent => checks.push("C11.content"),
                            _ => {}
                        }
                    }
                    Phase::Reopen | Phase::CrashAfterFlush => {
                        if !inv {
                            checks.push(if phase == Phase::Reopen { "C01.reopen-eq" } else { "C01.crash-after-flush" });
                            if self.foreign {
                                checks.push("C02.edit-preserves");
                            }
                        }
                        match d.area {
                            // C03 quantifies over histories "with reopen allowed between any two operations":
                            // table contents that differ from the model after a clean reopen break it too
                            Area::Rows | Area::Tables if phase == Phase::Reopen => checks.push("C03.reopen-step"),
                            _ => {}
                        }
                        match d.area {
                            // (a table that is not reported at all is not "reported with the same columns")
                            Area::Schema | Area::Tables => checks.push("C06.schema-reopen"),
                            Area::Summary => checks.push("C10.getters-reopen"),
                            Area::StreamList | Area::Signature => checks.push("C11.listing"),
                            Area::StreamContent => checks.push("C11.content"),
                            _ => {}
                        }
                    }
                    Phase::FirstOpen => {
                        checks.push("C02.first-open-eq");
                    }
                }
                if self.limits && !inv {
                    checks.push("C20.saved-unreadable");
                }
                if self.script && !inv && phase != Phase::Now {
                    // "whenever a flush or hand-back returns success after calls that all
                    // returned success, the medium reopens to that state" - faults or not
                    checks.push("C15.ok-but-lost");
                }
            }
            for c in checks {
                self.viol(c, &site, d.msg.clone());
            }
        }
        self.done = true;
    }

    /// Full API snapshot of the working package.  None if it panicked (a
    /// violation) or if an injected fault was reported during it (from then
    /// on only the no-panic oracle applies).
    fn working_snapshot(&mut self) -> Option<Snap> {
        let was = self.disk.borrow().hard_fault_fired;
        self.disk.borrow_mut().hard_fault_fired = false;
        let pkg = self.pkg.as_mut()?;
        let r = guarded(|| snapshot::take(pkg));
        let fired = self.disk.borrow().hard_fault_fired;
        self.disk.borrow_mut().hard_fault_fired = was || fired;
        match r {
            Caught::Val(s) => {
                if fired {
                    self.any_hard_fault = true;
                    self.tainted = true;
                    self.stats.tainted = true;
                    self.stats.probe("fault_reported_as_error");
                    None
                } else {
                    Some(s)
                }
            }
            Caught::Panic(loc, msg) => {
                self.panic_violation("read sweep", loc, msg, false);
                None
            }
        }
    }

    fn observe(&mut self, phase: Phase) {
        if self.tainted || !self.cfg.oracles || self.done || self.catalog_edited {
            return;
        }
        if self.pkg.is_none() {
            return;
        }
        let snap = match self.working_snapshot() {
            Some(s) => s,
            None => return,
        };
        self.stats.snapshots += 1;
        self.stats.oracle_evals += 1;
        let unsettled: Vec<(usize, String)> =
            self.writers.values().filter(|w| w.4).map(|w| crate::names::stream_key(&w.1)).collect();
        let mut diffs = snapshot::compare_skipping(&snap, &self.model, &unsettled);
        diffs.extend(snapshot::invariants(&snap, Some(&self.model)));
        self.map_diffs(diffs, phase);
    }

    // -------------------------------------------------------- one operation

    fn run_select(&mut self, table: &str, cols: &[String], cond: &Option<Cond>) -> Result<(), String> {
        let exp = self.model.plan_select(table, cols, cond);
        let pkg = self.pkg.as_mut().unwrap();
        let mut q = Select::table(table);
        if !cols.is_empty() {
            q = q.columns(cols);
        }
        if let Some(c) = cond {
            q = q.with(cond_expr(c));
        }
        let got = match pkg.select_rows(q) {
            Ok(mut rows) => {
                let reported = rows.len();
                let names: Vec<String> = rows.columns().iter().map(|c| c.name().to_string()).collect();
                let mut out = Vec::new();
                for row in rows.by_ref() {
                    let mut r = Vec::with_capacity(row.len());
                    for i in 0..row.len() {
                        r.push(snapshot::to_val(&row[i]));
                    }
                    out.push(r);
                }
                Ok((reported, names, out))
            }
            Err(e) => Err(e.to_string()),
        };
        if self.tainted || !self.cfg.oracles {
            return got.map(|_| ()).map_err(|e| e);
        }
        self.stats.oracle_evals += 1;
        let faulty = self.faults_in_play();
        match (got, exp) {
            (Ok((reported, names, rows)), Ok(e)) => {
                let rows_chk = if faulty { "C15.ok-but-wrong-read" } else { "C03.select-rows" };
                if reported != rows.len() {
                    self.viol(
                        if faulty { "C15.ok-but-wrong-read" } else { "C03.select-len" },
                        "select",
                        format!("select on {:?}: len() {} but {} rows yielded", table, reported, rows.len()),
                    );
                    self.done = true;
                }
                if names != e.col_names {
                    self.viol(rows_chk, "select-columns", format!("select on {:?}: columns {:?}, expected {:?}", table, names, e.col_names));
                    self.done = true;
                }
                let same = if e.exact_seq {
                    rows == e.rows
                } else {
                    let mut a = rows.clone();
                    let mut b = e.rows.clone();
                    a.sort_by(|p, q| key_cmp(p, q));
                    b.sort_by(|p, q| key_cmp(p, q));
                    a == b
                };
                if !same {
                    self.viol(
                        rows_chk,
                        "select-rows",
                        format!(
                            "select {:?} cols {:?} cond {:?}: {} rows, expected {}; got {:?} expected {:?}",
                            table,
                            cols,
                            cond,
                            rows.len(),
                            e.rows.len(),
                            rows.iter().take(4).map(|r| r.iter().map(|v| v.short()).collect::<Vec<_>>()).collect::<Vec<_>>(),
                            e.rows.iter().take(4).map(|r| r.iter().map(|v| v.short()).collect::<Vec<_>>()).collect::<Vec<_>>()
                        ),
                    );
                    self.done = true;
                }
                Ok(())
            }
            (Err(e), Err(())) => Err(e),
            (Ok(_), Err(())) => {
                self.viol("C03.result", "select", format!("select on {:?} cols {:?} succeeded; the model expects an error", table, cols));
                self.done = true;
                Ok(())
            }
            (Err(e), Ok(_)) => {
                if self.disk.borrow().hard_fault_fired {
                    return Err(e);
                }
                self.viol("C03.result", "select", format!("select on {:?} cols {:?} failed: {}", table, cols, e));
                self.done = true;
                Err(e)
            }
        }
    }

    fn do_op(&mut self, op: &Op) -> Result<(), String> {
        let pkg = self.pkg.as_mut().unwrap();
        let es = |e: std::io::Error| e.to_string();
        match op {
            Op::CreateTable { name, cols } => {
                pkg.create_table(name.as_str(), cols.iter().map(build_col).collect()).map_err(es)
            }
            Op::DropTable { name } => pkg.drop_table(name).map_err(es),
            Op::Insert { table, rows } => {
                let rows: Vec<Vec<Value>> = rows.iter().map(|r| r.iter().map(snapshot::from_val).collect()).collect();
                pkg.insert_rows(Insert::into(table.as_str()).rows(rows)).map_err(es)
            }
            Op::Update { table, sets, cond } => {
                let mut q = Update::table(table.as_str());
                for (c, v) in sets {
                    q = q.set(c.as_str(), snapshot::from_val(v));
                }
                if let Some(c) = cond {
                    q = q.with(cond_expr(c));
                }
                pkg.update_rows(q).map_err(es)
            }
            Op::Delete { table, cond } => {
                let mut q = Delete::from(table.as_str());
                if let Some(c) = cond {
                    q = q.with(cond_expr(c));
                }
                pkg.delete_rows(q).map_err(es)
            }
            Op::WriteStream { name, dseed, steps } => {
                let mut w = pkg.write_stream(name).map_err(es)?;
                let mut counter = 0u64;
                for st in steps {
                    match st {
                        WStep::Write(n) => {
                            let buf: Vec<u8> = (0..*n as u64).map(|i| stream_byte(*dseed, counter + i)).collect();
                            counter += *n as u64;
                            w.write_all(&buf).map_err(es)?;
                        }
                        WStep::Seek(p) => {
                            w.seek(SeekFrom::Start(*p as u64)).map_err(es)?;
                        }
                        WStep::Flush => w.flush().map_err(es)?,
                    }
                }
                Ok(())
            }
            Op::RemoveStream { name } => pkg.remove_stream(name).map_err(es),
            Op::RemoveSignature => pkg.remove_digital_signature().map_err(es),
            Op::Summary(sop) => {
                let s = pkg.summary_info_mut();
                match sop {
                    SumOp::SetStr(f, v) => match f {
                        SumField::Title => s.set_title(v.as_str()),
                        SumField::Subject => s.set_subject(v.as_str()),
                        SumField::Author => s.set_author(v.as_str()),
                        SumField::Comments => s.set_comments(v.as_str()),
                        SumField::App => s.set_creating_application(v.as_str()),
                    },
                    SumOp::ClearStr(f) => match f {
                        SumField::Title => s.clear_title(),
                        SumField::Subject => s.clear_subject(),
                        SumField::Author => s.clear_author(),
                        SumField::Comments => s.clear_comments(),
                        SumField::App => s.clear_creating_application(),
                    },
                    SumOp::SetUuid(u) => s.set_uuid(uuid::Uuid::from_u128(*u)),
                    SumOp::ClearUuid => s.clear_uuid(),
                    SumOp::SetWordCount(n) => s.set_word_count(*n),
                    SumOp::ClearWordCount => s.clear_word_count(),
                    SumOp::SetTime(a, b) => s.set_creation_time(snapshot::pair_to_sys((*a, *b))),
                    SumOp::ClearTime => s.clear_creation_time(),
                    SumOp::SetArch(a) => s.set_arch(a.as_str()),
                    SumOp::ClearArch => s.clear_arch(),
                    SumOp::SetLangs(l) => {
                        let v: Vec<Language> = l.iter().map(|&c| Language::from_code(c)).collect();
                        s.set_languages(&v)
                    }
                    SumOp::ClearLangs => s.clear_languages(),
                    SumOp::SetCodepage(cp) => match CodePage::from_id(*cp as i32) {
                        Some(c) => s.set_codepage(c),
                        None => return Err("unknown code page".into()),
                    },
                }
                Ok(())
            }
            Op::SetDbCodepage(cp) => match CodePage::from_id(*cp as i32) {
                Some(c) => {
                    pkg.set_database_codepage(c);
                    Ok(())
                }
                None => Err("unknown code page".into()),
            },
            Op::Flush => pkg.flush().map_err(es),
            _ => unreachable!(),
        }
    }

    fn expectation(&self, op: &Op) -> Expect {
        let e = self.expectation_inner(op);
        if e == Expect::Ok && !self.model.saturated.is_empty() {
            let mentions = |v: &Val| matches!(v, Val::Str(s) if self.model.saturated.contains(s));
            let hit = match op {
                Op::Insert { rows, .. } => rows.iter().flatten().any(mentions),
                Op::Update { sets, .. } => sets.iter().any(|(_, v)| mentions(v)),
                _ => false,
            };
            if hit {
                return Expect::Either;
            }
        }
        e
    }

    fn expectation_inner(&self, op: &Op) -> Expect {
        let m = &self.model;
        // with two-byte references the pool addresses 65,535 strings; only
        // the boundary profile pays for counting them
        let pool_ok = |table: &str, nt: &TableM| -> bool {
            match (self.limits, m.pool_slots) {
                (true, Some(cap)) => m.distinct_strings_with(table, nt) <= cap,
                _ => true,
            }
        };
        let r = |table: &str, x: Result<TableM, ()>| match x {
            Ok(nt) => {
                if pool_ok(table, &nt) {
                    Expect::Ok
                } else {
                    Expect::Err
                }
            }
            Err(()) => Expect::Err,
        };
        match op {
            Op::CreateTable { name, cols } => {
                let e = m.expect_create_table(name, cols);
                if e == Expect::Ok && self.limits {
                    if let Some(cap) = m.pool_slots {
                        let mut m2 = m.clone();
                        m2.apply_create_table(name, cols);
                        if m2.live_strings().len() > cap {
                            return Expect::Err;
                        }
                    }
                }
                e
            }
            Op::DropTable { name } => m.expect_drop_table(name),
            Op::Insert { table, rows } => r(table, m.plan_insert(table, rows)),
            Op::Update { table, sets, cond } => r(table, m.plan_update(table, sets, cond)),
            Op::Delete { table, cond } => r(table, m.plan_delete(table, cond)),
            Op::WriteStream { name, .. } => m.expect_write_stream(name),
            Op::RemoveStream { name } => m.expect_existing_stream(name),
            Op::SetDbCodepage(cp) | Op::Summary(SumOp::SetCodepage(cp)) => {
                if crate::cp::known(*cp) {
                    Expect::Ok
                } else {
                    Expect::Err
                }
            }
            _ => Expect::Ok,
        }
    }

    fn apply_to_model(&mut self, op: &Op) {
        match op {
            Op::CreateTable { name, cols } => self.model.apply_create_table(name, cols),
            Op::DropTable { name } => self.model.apply_drop_table(name),
            Op::Insert { table, rows } => {
                if let Ok(t) = self.model.plan_insert(table, rows) {
                    self.model.tables.insert(table.clone(), t);
                }
            }
            Op::Update { table, sets, cond } => {
                if let Ok(t) = self.model.plan_update(table, sets, cond) {
                    self.model.tables.insert(table.clone(), t);
                }
            }
            Op::Delete { table, cond } => {
                if let Ok(t) = self.model.plan_delete(table, cond) {
                    self.model.tables.insert(table.clone(), t);
                }
            }
            Op::WriteStream { name, dseed, steps } => self.model.apply_write_stream(name, *dseed, steps),
            Op::RemoveStream { name } => self.model.apply_remove_stream(name),
            Op::RemoveSignature => {
                self.model.sig = false;
                self.model.sig_ex = false;
            }
            Op::Summary(s) => self.model.apply_summary(s),
            Op::SetDbCodepage(cp) => self.model.db_cp = *cp,
            _ => {}
        }
    }

    fn mutation_step(&mut self, op: &Op) {
        // scope: a stream is never written or removed under its own live handle
        if let Op::WriteStream { name, .. } | Op::RemoveStream { name } = op {
            let key = crate::names::stream_key(name);
            let own: Vec<u8> =
                self.writers.iter().filter(|(_, w)| crate::names::stream_key(&w.1) == key).map(|(h, _)| *h).collect();
            for h in own {
                self.writers.remove(&h);
            }
        }
        let deletes_entry = matches!(op, Op::RemoveStream { .. } | Op::DropTable { .. } | Op::RemoveSignature);
        let handles_live = !self.writers.is_empty();
        let expect = if self.catalog_edited { Expect::Either } else { self.expectation(op) };
        let check = self.cfg.oracles && !self.tainted;
        let stream_op = matches!(op, Op::WriteStream { .. } | Op::RemoveStream { .. } | Op::RemoveSignature);
        // snapshot before any call that may be refused
        let before: Option<Snap> = if check && (expect != Expect::Ok || self.reject) {
            match self.working_snapshot() {
                Some(s) => Some(s),
                None => {
                    if self.done {
                        return;
                    }
                    None
                }
            }
        } else {
            None
        };
        let check = check && !self.tainted;
        self.disk.borrow_mut().hard_fault_fired = false;
        let res = match guarded(|| self.do_op(op)) {
            Caught::Val(r) => r,
            Caught::Panic(loc, msg) => {
                self.panic_violation(op.kind(), loc, msg, stream_op);
                return;
            }
        };
        let fault_now = self.disk.borrow().hard_fault_fired;
        if fault_now {
            self.any_hard_fault = true;
        }
        if std::env::var_os("MSISIM_DEBUG").is_some() {
            eprintln!("debug: op {} {} -> {:?}", self.cur_id, op.kind(), res);
        }
        if self.disk.borrow().budget_exceeded {
            self.viol("C09.hang", op.kind(), format!("{} exceeded the medium event budget", op.kind()));
            self.done = true;
            return;
        }
        if !check {
            if res.is_ok() && !self.tainted {
                self.apply_to_model(op);
                self.stats.mutations_ok += 1;
            }
            return;
        }
        match (&res, expect) {
            (Err(e), _) if fault_now => {
                // an injected fault was reported: nothing further is promised
                let _ = e;
                self.tainted = true;
                self.stats.tainted = true;
                self.stats.probe("fault_reported_as_error");
                return;
            }
            (Ok(()), Expect::Err) => {
                let m = format!("{} succeeded although the model expects an error: {}", op.kind(), brief_op(op));
                let site = op.kind();
                if stream_op {
                    self.viol("C11.result", site, m.clone());
                } else {
                    self.viol("C03.result", site, m.clone());
                    if matches!(op, Op::CreateTable { .. }) {
                        self.viol("C06.result", site, m.clone());
                    }
                }
                if let Op::Update { .. } = op {
                    // a key update the model refuses (collision) that went through
                    self.viol("C05.unique", "update-key", m.clone());
                }
                if self.foreign {
                    self.viol("C02.edit-preserves", site, m.clone());
                }
                self.viol("C20.over-accepted", site, m);
                // what did the accepted call store?  (unique keys, order and
                // cell validity are C05's, whatever let the rows in)
                if matches!(op, Op::Insert { .. } | Op::Update { .. }) {
                    if let Some(snap) = self.working_snapshot() {
                        let diffs = snapshot::invariants(&snap, Some(&self.model));
                        for d in diffs {
                            let c = match d.area {
                                Area::Unique => "C05.unique",
                                Area::Order => "C05.order",
                                Area::CellValid => "C05.cell-valid",
                                _ => continue,
                            };
                            self.viol(c, &format!("{:?}", d.area), d.msg);
                        }
                    }
                }
                self.done = true;
                return;
            }
            (Err(e), Expect::Ok) => {
                let m = format!("{} failed ({}) although everything is within limits: {}", op.kind(), e, brief_op(op));
                let site = op.kind();
                if self.faults_in_play() {
                    // error without an injected fault in this call, but after
                    // an earlier swallowed one: the earlier call did not complete
                    self.viol("C15.ok-but-lost", site, m);
                } else {
                    if stream_op {
                        self.viol("C11.result", site, m.clone());
                    } else {
                        self.viol("C03.result", site, m.clone());
                        if matches!(op, Op::CreateTable { .. }) {
                            self.viol("C06.result", site, m.clone());
                        }
                    }
                    if self.foreign {
                        self.viol("C02.edit-preserves", site, m.clone());
                    }
                    self.viol("C20.within-refused", site, m);
                    // unexpected or not, a refusal must change nothing
                    if let Some(b) = before.as_ref() {
                        if let Some(after) = self.working_snapshot() {
                            if *b != after {
                                let what = describe_snap_diff(b, &after);
                                self.viol(
                                    "C04.err-unchanged",
                                    site,
                                    format!("refused {} changed the package: {} [{}]", op.kind(), what, brief_op(op)),
                                );
                            }
                        }
                    }
                }
                self.done = true;
                return;
            }
            _ => {}
        }
        match res {
            Ok(()) => {
                if deletes_entry && handles_live {
                    self.deleted_under_handle = true;
                    self.stats.probe("dir_entry_deleted_under_live_handle");
                }
                if expect == Expect::Either {
                    self.stats.probe("either_accepted");
                }
                self.apply_to_model(op);
                self.stats.mutations_ok += 1;
                self.note_probes(op);
            }
            Err(_) => {
                self.stats.rejected += 1;
                self.stats.rejected_ids.push(self.cur_id);
                if expect == Expect::Either {
                    self.stats.probe("late_or_unpredicted_refusal");
                }
                // C04: a refused call changes nothing
                let after = match self.working_snapshot() {
                    Some(s) => s,
                    None => return,
                };
                self.stats.oracle_evals += 1;
                if let Some(b) = before {
                    if b != after {
                        let what = describe_snap_diff(&b, &after);
                        let m = format!("refused {} changed the package: {} [{}]", op.kind(), what, brief_op(op));
                        self.viol("C04.err-unchanged", op.kind(), m.clone());
                        if self.foreign {
                            // "changes made through the API preserve all untouched content"
                            self.viol("C02.edit-preserves", op.kind(), m.clone());
                        }
                        if self.limits {
                            self.viol("C20.over-changed-state", op.kind(), m);
                        }
                        self.done = true;
                    }
                }
            }
        }
    }

    fn note_probes(&mut self, op: &Op) {
        match op {
            Op::Update { table, sets, .. } => {
                if let Some(t) = self.model.tables.get(table) {
                    if sets.iter().any(|(c, _)| t.col_index(c).map(|i| t.cols[i].key).unwrap_or(false)) {
                        self.stats.probe("key_column_updated");
                    }
                }
            }
            Op::Insert { rows, .. } => {
                if rows.len() > 1 {
                    self.stats.probe("batch_insert");
                }
                if rows.iter().any(|r| r.iter().any(|v| matches!(v, Val::Str(s) if s.len() > 0xffff))) {
                    self.stats.probe("string_over_64k_inserted");
                }
            }
            Op::DropTable { .. } => self.stats.probe("table_dropped"),
            _ => {}
        }
    }

    fn read_stream_step(&mut self, name: &str, steps: &[RStep]) {
        let expect = self.model.expect_existing_stream(name);
        let check = self.cfg.oracles && !self.tainted;
        let model_data: Option<Vec<u8>> = self.model.streams.get(&crate::names::stream_key(name)).map(|s| s.data.clone());
        let seek_style = self.aux(33);
        let model_len = model_data.as_ref().map(|d| d.len()).unwrap_or(0) as u64;
        let pkg = self.pkg.as_mut().unwrap();
        let steps = steps.to_vec();
        let res = guarded(|| -> Result<Vec<(u64, Vec<u8>)>, String> {
            let mut rd = pkg.read_stream(name).map_err(|e| e.to_string())?;
            let mut pos = 0u64;
            let mut out = Vec::new();
            for st in steps.iter() {
                match st {
                    RStep::Read(n) => {
                        let mut buf = vec![0u8; *n as usize];
                        let mut got = 0;
                        while got < buf.len() {
                            let k = rd.read(&mut buf[got..]).map_err(|e| e.to_string())?;
                            if k == 0 {
                                break;
                            }
                            got += k;
                        }
                        buf.truncate(got);
                        out.push((pos, buf));
                        pos += got as u64;
                    }
                    RStep::Seek(p) => {
                        // the same target, spelled in one of the three ways Seek offers
                        let target = *p as i64;
                        let len = model_len as i64;
                        let here = rd.stream_position().map_err(|e| e.to_string())?;
                        if here != pos {
                            return Err(format!("POSITION: stream_position() says {} after reading up to {}", here, pos));
                        }
                        pos = match (seek_style + *p as u64) % 3 {
                            0 => rd.seek(SeekFrom::Start(target as u64)),
                            1 => rd.seek(SeekFrom::Current(target - pos as i64)),
                            _ if target <= len => rd.seek(SeekFrom::End(target - len)),
                            _ => rd.seek(SeekFrom::Start(target as u64)),
                        }
                        .map_err(|e| e.to_string())?;
                    }
                    RStep::ToEnd => {
                        let mut buf = Vec::new();
                        rd.read_to_end(&mut buf).map_err(|e| e.to_string())?;
                        let l = buf.len() as u64;
                        out.push((pos, buf));
                        pos += l;
                    }
                }
            }
            Ok(out)
        });
        let res = match res {
            Caught::Val(r) => r,
            Caught::Panic(loc, msg) => {
                self.panic_violation("read_stream", loc, msg, true);
                return;
            }
        };
        if !check {
            return;
        }
        self.stats.oracle_evals += 1;
        let faulty = self.faults_in_play();
        match (res, expect, model_data) {
            (Ok(chunks), _, Some(data)) => {
                for (pos, buf) in chunks {
                    let a = (pos as usize).min(data.len());
                    let z = (a + buf.len()).min(data.len());
                    if data[a..z] != buf[..] {
                        self.viol(
                            if faulty { "C15.ok-but-wrong-read" } else { "C11.content" },
                            "read_stream",
                            format!("read_stream({:?}) at {} returned {} bytes that differ from what was written", name, pos, buf.len()),
                        );
                        self.done = true;
                        return;
                    }
                }
            }
            (Ok(_), Expect::Err, _) | (Ok(_), Expect::Either, None) => {
                self.viol("C11.alias", "read_stream", format!("read_stream({:?}) opened a stream that was never written under that name", name));
                self.done = true;
            }
            (Err(e), Expect::Ok, _) => {
                if self.disk.borrow().hard_fault_fired {
                    self.tainted = true;
                    self.stats.tainted = true;
                } else {
                    self.viol(
                        if faulty { "C15.ok-but-lost" } else { "C11.content" },
                        "read_stream",
                        format!("read_stream({:?}) failed: {}", name, e),
                    );
                    self.done = true;
                }
            }
            _ => {}
        }
    }

    // -------------------------------------------------------- restart

    fn verify_image(&mut self, image: &[u8], phase: Phase) {
        if !self.cfg.oracles || self.tainted {
            // still: opening whatever is there must not panic
            let st = Rc::new(RefCell::new(DiskState::new(image.to_vec(), fault_free(), Vec::new())));
            let r = guarded(|| {
                if let Ok(mut p) = Package::open(SimDisk::new(st.clone())) {
                    let _ = snapshot::take(&mut p);
                }
            });
            if let Caught::Panic(loc, msg) = r {
                self.panic_violation("open/read of restart image", loc, msg, false);
            }
            return;
        }
        let faulty = self.faults_in_play();
        let st = Rc::new(RefCell::new(DiskState::new(image.to_vec(), fault_free(), Vec::new())));
        let opened = guarded(|| Package::open(SimDisk::new(st.clone())));
        let mut p = match opened {
            Caught::Panic(loc, msg) => {
                self.panic_violation("Package::open", loc, msg, false);
                return;
            }
            Caught::Val(Err(e)) => {
                let m = format!("the saved file does not reopen: {}", e);
                if faulty {
                    self.viol("C15.ok-but-lost", "open", m);
                } else {
                    self.viol(if phase == Phase::CrashAfterFlush { "C01.crash-after-flush" } else { "C01.reopen-eq" }, "open", m.clone());
                    if self.foreign {
                        self.viol(if phase == Phase::FirstOpen { "C02.first-open-eq" } else { "C02.edit-preserves" }, "open", m.clone());
                    }
                    if phase == Phase::Reopen {
                        self.viol("C03.reopen-step", "open", m.clone());
                    }
                    if self.limits {
                        self.viol("C20.saved-unreadable", "open", m.clone());
                    }
                    if self.script {
                        self.viol("C15.ok-but-lost", "open", m.clone());
                    }
                    // nothing is "the same after saving and reopening" in a
                    // file that does not reopen
                    self.viol("C06.schema-reopen", "open", m.clone());
                    self.viol("C10.getters-reopen", "open", m.clone());
                    self.viol("C11.listing", "open", m);
                }
                self.done = true;
                self.byte_oracle(image);
                return;
            }
            Caught::Val(Ok(p)) => p,
        };
        let snap = match guarded(|| snapshot::take(&mut p)) {
            Caught::Val(s) => s,
            Caught::Panic(loc, msg) => {
                self.panic_violation("read sweep after reopen", loc, msg, false);
                return;
            }
        };
        self.stats.snapshots += 1;
        self.stats.oracle_evals += 1;
        let mut diffs = snapshot::compare(&snap, &self.model);
        diffs.extend(snapshot::invariants(&snap, Some(&self.model)));
        if let Some(before) = self.time_before_close.take() {
            // the very value that was observable just before closing
            if phase != Phase::FirstOpen && before != snap.summary.time {
                diffs.push(Diff {
                    area: Area::Summary,
                    msg: format!(
                        "summary creation_time was {:?} just before closing and is {:?} after reopening",
                        before, snap.summary.time
                    ),
                });
            }
        }
        let table_diff: Option<String> =
            diffs.iter().find(|d| matches!(d.area, Area::Schema | Area::Rows | Area::Tables)).map(|d| d.msg.clone());
        self.map_diffs(diffs, phase);
        // C16: that read-only session wrote nothing, whichever way it closes
        let mode = self.aux(7) % 3;
        let closed = guarded(move || match mode {
            0 => {
                let _ = p.into_inner();
            }
            1 => drop(p),
            _ => {
                let _ = p.flush();
                drop(p);
            }
        });
        if let Caught::Panic(loc, msg) = closed {
            self.panic_violation("close of read-only session", loc, msg, false);
            return;
        }
        self.stats.oracle_evals += 1;
        {
            let s = st.borrow();
            if s.stats.events[EvKind::Write.idx()] != 0 {
                self.viol(
                    "C16.write-issued",
                    "verification-reopen",
                    format!(
                        "a session that only opened and read issued {} writes to the medium (close mode {})",
                        s.stats.events[EvKind::Write.idx()],
                        mode
                    ),
                );
                self.done = true;
            }
            if s.view != image {
                self.viol("C16.bytes-changed", "verification-reopen", "a read-only session changed the medium".into());
                self.done = true;
            }
        }
        let api_failed = self.done;
        let byte_failed_before = self.byte_level_failed;
        self.byte_oracle(image);
        if let Some(m) = table_diff {
            if !faulty && phase != Phase::FirstOpen && !self.byte_level_failed && !byte_failed_before {
                // the independent decoder reads this library-saved file as the model has it,
                // the API does not: "decodes ... to the same tables and rows the API reports"
                self.viol("C08.api-vs-decode", "reopen", format!("the saved file decodes as expected, but the API reports otherwise: {}", m));
            }
        }
        if api_failed || self.done {
            return;
        }
        // C01: saving again with no change alters nothing
        if self.aux(8) % 4 == 0 && !faulty {
            self.stats.probe("resave_checked");
            let st2 = Rc::new(RefCell::new(DiskState::new(image.to_vec(), fault_free(), Vec::new())));
            let r = guarded(|| -> Result<Snap, String> {
                let mut p = Package::open(SimDisk::new(st2.clone())).map_err(|e| e.to_string())?;
                p.flush().map_err(|e| e.to_string())?;
                let _ = p.into_inner().map_err(|e| e.to_string())?;
                let img2 = st2.borrow().view.clone();
                let st3 = Rc::new(RefCell::new(DiskState::new(img2, fault_free(), Vec::new())));
                let mut p = Package::open(SimDisk::new(st3)).map_err(|e| e.to_string())?;
                Ok(snapshot::take(&mut p))
            });
            self.stats.oracle_evals += 1;
            match r {
                Caught::Panic(loc, msg) => self.panic_violation("resave", loc, msg, false),
                Caught::Val(Err(e)) => {
                    self.viol("C01.resave-idempotent", "resave", format!("save and reopen with no change failed: {}", e));
                    self.done = true;
                }
                Caught::Val(Ok(s2)) => {
                    if s2 != snap {
                        self.viol(
                            "C01.resave-idempotent",
                            "resave",
                            format!("save and reopen with no change altered the package: {}", describe_snap_diff(&snap, &s2)),
                        );
                        self.done = true;
                    }
                }
            }
        }
    }

    /// C08 / C10: the saved bytes, decoded independently.  Evaluated whether
    /// or not the API-level reopen agreed with the model.
    fn byte_oracle(&mut self, image: &[u8]) {
        let faulty = self.faults_in_play();
        if self.byte_level_failed {
            return;
        }
        self.stats.decodes += 1;
        self.stats.oracle_evals += 1;
        match codec::decode(image) {
            Err(e) => {
                self.viol(if faulty { "C15.ok-but-lost" } else { "C08.layout" }, "decode", format!("independent decoder: {}", e));
                if self.foreign && !faulty {
                    self.viol("C02.saved-decode-eq", "decode", format!("independent decoder: {}", e));
                }
                // byte-level findings do not end the run: the API-level
                // consequences (if any) belong to other properties
                self.byte_level_failed = true;
            }
            Ok(d) => {
                let (problems, facts) = decodecheck::check_decoded(&d, &self.model, self.exact_pool);
                self.stats.probe_n("decoded_pool_has_free_slot", (facts.free_slots > 0) as u64);
                self.stats.probe_n("decoded_refcount_above_1", (facts.shared_entries > 0) as u64);
                self.stats.probe_n("decoded_string_over_64k", (facts.long_entries > 0) as u64);
                self.stats.probe_n("decoded_table_stream_over_4096", (facts.big_tables > 0) as u64);
                self.stats.probe_n("decoded_long_refs", d.long_refs as u64);
                let mut sum_problems = Vec::new();
                if let Some(raw) = &d.summary {
                    sum_problems = decodecheck::check_summary_stream(raw, &self.model.summary, self.library_lineage);
                } else {
                    sum_problems.push(("C10.propset-wellformed".to_string(), "no summary information stream".to_string()));
                }
                let mut seen_checks: Vec<String> = Vec::new();
                for (c, m) in problems.into_iter().chain(sum_problems.into_iter()) {
                    if seen_checks.contains(&c) {
                        continue;
                    }
                    seen_checks.push(c.clone());
                    if faulty {
                        self.viol("C15.ok-but-lost", "decode", m);
                    } else {
                        self.viol(&c, "decode", m.clone());
                        if self.foreign {
                            self.viol("C02.saved-decode-eq", "decode", m);
                        }
                    }
                    self.byte_level_failed = true;
                }
            }
        }
    }

    fn apply_edits(&mut self, image: &mut Vec<u8>, edits: &[Edit]) {
        for e in edits {
            match e {
                Edit::AddSignature(ex) => {
                    if let Ok(img) = crate::foreign::add_streams(
                        image,
                        &[(crate::names::SIG, b"sig-bytes".to_vec())],
                    ) {
                        *image = img;
                        self.model.sig = true;
                    }
                    if *ex {
                        if let Ok(img) =
                            crate::foreign::add_streams(image, &[(crate::names::SIG_EX, b"sig-ex-bytes".to_vec())])
                        {
                            *image = img;
                            self.model.sig_ex = true;
                        }
                    }
                }
                Edit::AddDocSummary => {
                    if let Ok(img) = crate::foreign::add_streams(image, &[(crate::names::DOCSUMMARY, vec![0u8; 64])]) {
                        *image = img;
                        self.model.docsum = true;
                    }
                }
                Edit::Corrupt(spec) => {
                    let mut rng = Prng::new(self.aux(21));
                    let before_len = image.len();
                    let applied = match spec {
                        crate::corrupt::CorruptSpec::StaleSector(ppm) => match self.earlier_images.last() {
                            Some(e) => crate::corrupt::CorruptSpec::apply_stale(*ppm, image, e),
                            None => false,
                        },
                        _ => spec.apply(image, &mut rng),
                    };
                    if std::env::var_os("MSISIM_DEBUG").is_some() {
                        eprintln!("debug: corruption {:?} applied={} image {} -> {} bytes", spec, applied, before_len, image.len());
                        let _ = std::fs::write("/tmp/msisim_debug_image.msi", &image[..]);
                        if let Ok(d) = codec::decode(image) {
                            eprintln!("debug: decoded pool entries {} long_refs {} problems {:?}", d.pool.len(), d.long_refs, d.problems.first());
                        }
                    }
                    if applied {
                        self.stats.probe(spec.probe_name());
                        self.tainted = true;
                        self.stats.tainted = true;
                    }
                }
            }
        }
    }

    fn restart(&mut self, mode: CloseMode, edits: &[Edit]) {
        self.stats.restarts += 1;
        self.writers.clear();
        let pkg = match self.pkg.take() {
            Some(p) => p,
            None => return,
        };
        self.time_before_close = Some(pkg.summary_info().creation_time().map(snapshot::sys_to_pair));
        self.disk.borrow_mut().hard_fault_fired = false;
        let disk = self.disk.clone();
        let mut rng = Prng::new(self.aux(3));
        let keep_some = self.aux(4) % 2 == 0;
        // Ok(Some(image)) closed fine; Ok(None) the close reported an error
        let res = guarded(move || -> Result<Vec<u8>, String> {
            match mode {
                CloseMode::IntoInner => {
                    let f = pkg.into_inner().map_err(|e| e.to_string())?;
                    drop(f);
                    let mut d = disk.borrow_mut();
                    d.commit();
                    Ok(d.view.clone())
                }
                CloseMode::Drop => {
                    drop(pkg);
                    let mut d = disk.borrow_mut();
                    d.commit();
                    Ok(d.view.clone())
                }
                CloseMode::FlushDrop => {
                    let mut pkg = pkg;
                    pkg.flush().map_err(|e| e.to_string())?;
                    drop(pkg);
                    let mut d = disk.borrow_mut();
                    d.commit();
                    Ok(d.view.clone())
                }
                CloseMode::FlushCrash => {
                    let mut pkg = pkg;
                    let r = pkg.flush().map_err(|e| e.to_string());
                    let img = {
                        let mut d = disk.borrow_mut();
                        let img = d.crash_image(&mut rng, keep_some);
                        d.kill();
                        img
                    };
                    drop(pkg);
                    r.map(|_| img)
                }
                CloseMode::Crash => {
                    let img = {
                        let mut d = disk.borrow_mut();
                        let img = d.crash_image(&mut rng, true);
                        d.kill();
                        img
                    };
                    drop(pkg);
                    Ok(img)
                }
            }
        });
        let fault_now = self.disk.borrow().hard_fault_fired;
        let cache_probe = self.disk.borrow().cfg.write_back;
        // C16: a session that only read must not have written, however it closed
        if let Some(opened_on) = self.session_image.take() {
            let only_flush_faults = {
                let d = self.disk.borrow();
                let st = &d.stats;
                // faults on the medium's flush or reads do not excuse a write; write or seek faults end the claim
                [1usize, 2].iter().all(|&k| st.hard_transient[k] == 0 && st.hard_persistent[k] == 0)
                    && st.hard_persistent[0] == 0
                    && st.storage_full == 0
                    && !self.any_hard_fault_non_flush
            };
            if self.cfg.oracles && (!self.tainted || only_flush_faults) && (!self.faults_in_play() || only_flush_faults) && self.session_clean {
                let (writes, same) = {
                    let d = self.disk.borrow();
                    (d.stats.events[EvKind::Write.idx()], d.view == opened_on)
                };
                self.stats.oracle_evals += 1;
                self.stats.probe("read_only_working_session_checked");
                if writes != 0 {
                    self.viol(
                        "C16.write-issued",
                        "working-session",
                        format!("a session of read operations only, closed by {:?}, issued {} writes to the medium", mode, writes),
                    );
                    self.done = true;
                }
                if !same {
                    self.viol(
                        "C16.bytes-changed",
                        "working-session",
                        format!("a session of read operations only, closed by {:?}, changed the bytes of the medium", mode),
                    );
                    self.done = true;
                }
            }
        }
        let image_now = {
            let d = self.disk.borrow();
            if d.dead {
                None
            } else {
                Some(d.view.clone())
            }
        };
        self.retire_disk();
        let mut image = match res {
            Caught::Panic(loc, msg) => {
                self.panic_violation("close", loc, msg, false);
                return;
            }
            Caught::Val(Ok(img)) => img,
            Caught::Val(Err(e)) => {
                if fault_now || self.any_hard_fault {
                    self.tainted = true;
                    self.stats.tainted = true;
                    self.stats.probe("fault_reported_as_error");
                } else if self.cfg.oracles && !self.tainted {
                    self.viol("C01.reopen-eq", "close", format!("closing the package failed with no fault injected: {}", e));
                    self.done = true;
                    return;
                }
                match image_now {
                    Some(i) => i,
                    None => return,
                }
            }
        };
        match mode {
            CloseMode::IntoInner => self.stats.probe("close_into_inner"),
            CloseMode::Drop => {
                self.stats.probe("close_drop");
                if self.any_hard_fault {
                    // Drop cannot report errors: nothing is promised
                    self.tainted = true;
                    self.stats.tainted = true;
                }
            }
            CloseMode::FlushDrop => self.stats.probe("close_flush_drop"),
            CloseMode::FlushCrash => {
                self.stats.probe("close_flush_crash");
                if cache_probe {
                    self.stats.probe("flush_crash_on_write_back_disk");
                }
            }
            CloseMode::Crash => {
                self.stats.probe("crash_without_flush");
                self.tainted = true;
                self.stats.tainted = true;
            }
        }
        self.model.on_save();
        let pristine = image.clone();
        self.apply_edits(&mut image, edits);
        if self.earlier_images.len() >= 2 {
            self.earlier_images.remove(0);
        }
        self.earlier_images.push(pristine);
        let phase = if mode == CloseMode::FlushCrash { Phase::CrashAfterFlush } else { Phase::Reopen };
        self.verify_image(&image, phase);
        if self.done {
            return;
        }
        self.reopen_working(image);
    }

    fn reopen_working(&mut self, image: Vec<u8>) {
        self.session_image = if self.cfg.oracles && !self.tainted { Some(image.clone()) } else { None };
        self.session_clean = self.session_image.is_some();
        self.disk = self.new_disk(image);
        self.disk.borrow_mut().begin_op(self.cur_id);
        // the close and the reopen belong to one operation: ordinals go on
        self.disk.borrow_mut().ord = self.carry_ord;
        let d = self.disk.clone();
        match guarded(move || Package::open(SimDisk::new(d))) {
            Caught::Panic(loc, msg) => self.panic_violation("Package::open", loc, msg, false),
            Caught::Val(Ok(p)) => self.pkg = Some(p),
            Caught::Val(Err(e)) => {
                // verify_image has judged this already (or we are tainted)
                if std::env::var_os("MSISIM_DEBUG").is_some() {
                    eprintln!("debug: working reopen failed: {}", e);
                }
                self.done = true;
            }
        }
    }

    fn writer_ops(&mut self, op: &Op) {
        match op {
            Op::OpenWriter { h, name, dseed } => {
                let expect = self.model.expect_write_stream(name);
                let pkg = self.pkg.as_mut().unwrap();
                match guarded(|| pkg.write_stream(name)) {
                    Caught::Panic(loc, msg) => self.panic_violation("write_stream", loc, msg, true),
                    Caught::Val(Ok(w)) => {
                        if expect == Expect::Err && !self.tainted {
                            self.viol("C11.result", "write_stream", format!("write_stream({:?}) accepted", name));
                            self.done = true;
                        }
                        self.model.apply_write_stream(name, *dseed, &[]);
                        self.writers.insert(*h, (w, name.clone(), *dseed, Vec::new(), false));
                        self.stats.probe("live_writer_opened");
                    }
                    Caught::Val(Err(_)) => {}
                }
            }
            Op::WriterStep { h, step } => {
                if let Some((w, name, dseed, steps, dirty)) = self.writers.get_mut(h) {
                    let counter: u64 = steps.iter().map(|s| if let WStep::Write(n) = s { *n as u64 } else { 0 }).sum();
                    let step2 = step.clone();
                    let ds = *dseed;
                    let r = guarded(|| -> std::io::Result<()> {
                        match step2 {
                            WStep::Write(n) => {
                                let buf: Vec<u8> = (0..n as u64).map(|i| stream_byte(ds, counter + i)).collect();
                                w.write_all(&buf)
                            }
                            WStep::Seek(p) => w.seek(SeekFrom::Start(p as u64)).map(|_| ()),
                            WStep::Flush => w.flush(),
                        }
                    });
                    match r {
                        Caught::Panic(loc, msg) => self.panic_violation("StreamWriter", loc, msg, true),
                        Caught::Val(Ok(())) => {
                            *dirty = !matches!(step, WStep::Flush);
                            steps.push(step.clone());
                            let (n, d, s) = (name.clone(), *dseed, steps.clone());
                            self.model.apply_write_stream(&n, d, &s);
                            self.stats.probe("live_writer_step_interleaved");
                        }
                        Caught::Val(Err(e)) => {
                            if !self.tainted && self.cfg.oracles && !self.disk.borrow().hard_fault_fired {
                                self.viol("C11.handle-interleave", "writer-step", format!("write through a live handle failed: {}", e));
                                self.done = true;
                            }
                        }
                    }
                }
            }
            Op::DropWriter { h } => {
                if let Some((w, ..)) = self.writers.remove(h) {
                    if let Caught::Panic(loc, msg) = guarded(move || drop(w)) {
                        self.panic_violation("StreamWriter::drop", loc, msg, true);
                    }
                }
            }
            _ => {}
        }
    }

    fn step(&mut self, rec: &OpRec) {
        self.cur_id = rec.id;
        self.stats.ops += 1;
        self.disk.borrow_mut().begin_op(rec.id);
        if self.pkg.is_none() {
            return;
        }
        if rec.op.is_mutation() {
            self.session_image = None;
        }
        match &rec.op {
            Op::Restart { mode, edits } => {
                if self.catalog_edited {
                    // the model cannot say what a reopen reports after a catalog edit
                    return;
                }
                self.restart(*mode, edits);
                return;
            }
            Op::CatalogEdit { table, column, nullable, min, max } => {
                self.disk.borrow_mut().hard_fault_fired = false;
                let pkg = self.pkg.as_mut().unwrap();
                let iv = |v: &Option<i32>| v.map(Value::Int).unwrap_or(Value::Null);
                let q = Update::table("_Validation")
                    .set("Nullable", Value::from(if *nullable { "Y" } else { "N" }))
                    .set("MinValue", iv(min))
                    .set("MaxValue", iv(max))
                    .with(Expr::col("Table").eq(Expr::string(table.as_str())).and(Expr::col("Column").eq(Expr::string(column.as_str()))));
                match guarded(|| pkg.update_rows(q)) {
                    Caught::Panic(loc, msg) => self.panic_violation("catalog_edit", loc, msg, false),
                    Caught::Val(Ok(())) => {
                        self.catalog_edited = true;
                        self.stats.probe("catalog_edited_by_query");
                    }
                    Caught::Val(Err(_)) => {
                        if self.disk.borrow().hard_fault_fired {
                            self.any_hard_fault = true;
                            self.tainted = true;
                            self.stats.tainted = true;
                        }
                    }
                }
                return;
            }
            Op::Select { table, cols, cond } if self.catalog_edited => {
                // a refused select changes nothing either (the library compared with itself)
                if !self.cfg.oracles || self.tainted {
                    return;
                }
                let before = match self.working_snapshot() {
                    Some(s) => s,
                    None => return,
                };
                let pkg = self.pkg.as_mut().unwrap();
                let mut q = Select::table(table.as_str());
                if !cols.is_empty() {
                    q = q.columns(&cols.iter().map(|c| c.as_str()).collect::<Vec<_>>());
                }
                if let Some(c) = cond {
                    q = q.with(cond_expr(c));
                }
                let refused = match guarded(|| pkg.select_rows(q).map(|r| r.count())) {
                    Caught::Panic(loc, msg) => {
                        self.panic_violation("select", loc, msg, false);
                        return;
                    }
                    Caught::Val(r) => r.is_err(),
                };
                if refused {
                    self.stats.rejected += 1;
                    self.stats.rejected_ids.push(self.cur_id);
                    self.stats.probe("refused_select_after_catalog_edit");
                    if let Some(after) = self.working_snapshot() {
                        self.stats.oracle_evals += 1;
                        if before != after {
                            let what = describe_snap_diff(&before, &after);
                            self.viol("C04.err-unchanged", "select", format!("refused select changed the package: {} [{}]", what, brief_op(&rec.op)));
                            self.done = true;
                        }
                    }
                }
                return;
            }
            Op::Join { left, right, lcol, rcol, outer } => {
                self.disk.borrow_mut().hard_fault_fired = false;
                let pkg = self.pkg.as_mut().unwrap();
                let on = Expr::col(format!("{}.{}", left, lcol)).eq(Expr::col(format!("{}.{}", right, rcol)));
                let q = if *outer {
                    Select::table(left.as_str()).left_join(Select::table(right.as_str()), on)
                } else {
                    Select::table(left.as_str()).inner_join(Select::table(right.as_str()), on)
                };
                let r = guarded(|| match pkg.select_rows(q) {
                    Ok(rows) => {
                        let reported = rows.len();
                        let n = rows.count();
                        Some((reported, n))
                    }
                    Err(_) => None,
                });
                match r {
                    Caught::Panic(loc, msg) => self.panic_violation("join", loc, msg, false),
                    Caught::Val(Some((reported, n))) => {
                        self.stats.probe("join_executed");
                        if reported != n && self.cfg.oracles && !self.tainted {
                            self.viol("C03.select-len", "join", format!("join: len() {} but {} rows yielded", reported, n));
                            self.done = true;
                        }
                    }
                    Caught::Val(None) => {
                        if self.disk.borrow().hard_fault_fired {
                            self.any_hard_fault = true;
                            self.tainted = true;
                            self.stats.tainted = true;
                        }
                    }
                }
                return;
            }
            Op::Observe => {
                self.observe(Phase::Now);
                return;
            }
            Op::Select { table, cols, cond } => {
                let (t, c, k) = (table.clone(), cols.clone(), cond.clone());
                self.disk.borrow_mut().hard_fault_fired = false;
                match guarded(|| self.run_select(&t, &c, &k)) {
                    Caught::Panic(loc, msg) => self.panic_violation("select", loc, msg, false),
                    Caught::Val(Err(_)) => {
                        if self.disk.borrow().hard_fault_fired {
                            self.any_hard_fault = true;
                            self.tainted = true;
                            self.stats.tainted = true;
                        }
                    }
                    Caught::Val(Ok(())) => {}
                }
                return;
            }
            Op::ReadStream { name, steps } => {
                self.disk.borrow_mut().hard_fault_fired = false;
                self.read_stream_step(name, steps);
                return;
            }
            Op::OpenWriter { .. } | Op::WriterStep { .. } | Op::DropWriter { .. } => {
                self.writer_ops(&rec.op);
            }
            Op::Flush => {
                self.disk.borrow_mut().hard_fault_fired = false;
                let pkg = self.pkg.as_mut().unwrap();
                match guarded(|| pkg.flush()) {
                    Caught::Panic(loc, msg) => self.panic_violation("flush", loc, msg, false),
                    Caught::Val(Ok(())) => {}
                    Caught::Val(Err(e)) => {
                        if self.disk.borrow().hard_fault_fired || self.any_hard_fault {
                            self.any_hard_fault = true;
                            self.tainted = true;
                            self.stats.tainted = true;
                            self.stats.probe("fault_reported_as_error");
                        } else if self.cfg.oracles && !self.tainted {
                            self.viol("C01.reopen-eq", "flush", format!("flush failed with no fault injected: {}", e));
                            self.done = true;
                        }
                    }
                }
                if self.disk.borrow().budget_exceeded {
                    self.viol("C09.hang", "flush", "flush exceeded the medium event budget".into());
                    self.done = true;
                }
            }
            op => self.mutation_step(op),
        }
        if self.done {
            return;
        }
        // scheduled observation
        let pct = self.trace.knobs.observe_pct as u64;
        if rec.op.is_mutation() && self.aux(1) % 100 < pct {
            self.observe(Phase::Now);
        }
        if !self.tainted && self.stats.states.len() < 64 {
            self.stats.states.push(self.model.fingerprint());
        }
    }
}

fn brief_op(op: &Op) -> String {
    let s = serde_json::to_string(op).unwrap_or_default();
    if s.len() > 300 {
        let mut cut = 300;
        while !s.is_char_boundary(cut) {
            cut -= 1;
        }
        format!("{}...", &s[..cut])
    } else {
        s
    }
}

pub fn describe_snap_diff(a: &Snap, b: &Snap) -> String {
    if a.ptype != b.ptype || a.db_cp != b.db_cp {
        return "package type or database code page".into();
    }
    for (n, t) in a.tables.iter() {
        match b.tables.get(n) {
            None => return format!("table {:?} disappeared", n),
            Some(u) => {
                if t.cols != u.cols {
                    return format!("schema of table {:?}", n);
                }
                if t.rows != u.rows {
                    return format!("rows of table {:?} ({} -> {})", n, t.rows.len(), u.rows.len());
                }
                if t != u {
                    return format!("table {:?} (API-level details)", n);
                }
            }
        }
    }
    for n in b.tables.keys() {
        if !a.tables.contains_key(n) {
            return format!("table {:?} appeared", n);
        }
    }
    if a.stream_list != b.stream_list {
        return format!("stream listing {:?} -> {:?}", a.stream_list, b.stream_list);
    }
    if a.streams != b.streams {
        return "stream contents".into();
    }
    if a.summary != b.summary {
        return "summary information".into();
    }
    if a.has_sig != b.has_sig {
        return "digital signature flag".into();
    }
    "something".into()
}

pub fn run(trace: &Trace, cfg: &ExecCfg) -> RunResult {
    msi::verif_set_hash_seed(trace.knobs.hash_seed);
    let mut stats = RunStats::default();
    let mut violations = Vec::new();
    let limits = trace.profile == "limits";
    // initial image and model
    let (image, model, foreign, exact_pool): (Option<Vec<u8>>, Option<Model>, bool, bool) = match &trace.init {
        Init::Create(_) => (None, None, false, true),
        Init::Foreign(spec) => match spec.encode() {
            Ok(img) => (Some(img), Some(spec.model()), true, spec.exact_refcounts()),
            Err(e) => {
                // harness error: report as no-op run
                stats.probe("foreign_encode_failed");
                eprintln!("harness: foreign encode failed: {}", e);
                return RunResult { violations, stats, final_image: None, model: None };
            }
        },
        Init::Raw(hex) => (Some(hex_decode(hex)), None, true, false),
    };
    let disk_cfg = trace.knobs.disk.clone();
    let disk0 = Rc::new(RefCell::new(DiskState::new(
        image.clone().unwrap_or_default(),
        disk_cfg,
        trace.faults.clone(),
    )));
    // op id 0 is reserved for the initial create/open
    disk0.borrow_mut().begin_op(0);
    let mut ex = Exec {
        trace,
        cfg,
        model: model.clone().unwrap_or_else(|| Model::new_created(PType::Installer)),
        disk: disk0.clone(),
        pkg: None,
        writers: BTreeMap::new(),
        violations: Vec::new(),
        stats,
        tainted: false,
        exact_pool,
        library_lineage: !foreign,
        foreign,
        limits,
        script: trace.profile == "script",
        reject: trace.profile == "reject",
        cur_id: 0,
        done: false,
        any_hard_fault: false,
        carry_ord: [0; 4],
        deleted_under_handle: false,
        byte_level_failed: false,
        session_image: None,
        time_before_close: None,
        any_hard_fault_non_flush: false,
        session_clean: false,
        earlier_images: Vec::new(),
        catalog_edited: false,
    };
    match &trace.init {
        Init::Create(pt) => {
            ex.model = Model::new_created(*pt);
            let d = disk0.clone();
            let pt2 = ptype_of(*pt);
            match guarded(move || Package::create(pt2, SimDisk::new(d))) {
                Caught::Panic(loc, msg) => ex.panic_violation("Package::create", loc, msg, false),
                Caught::Val(Ok(p)) => ex.pkg = Some(p),
                Caught::Val(Err(e)) => {
                    if disk0.borrow().hard_fault_fired {
                        ex.tainted = true;
                        ex.any_hard_fault = true;
                    } else {
                        ex.viol("C03.result", "create", format!("Package::create failed: {}", e));
                    }
                    ex.done = true;
                }
            }
        }
        Init::Foreign(_) => {
            let img = image.clone().unwrap();
            ex.verify_image(&img, Phase::FirstOpen);
            if !ex.done {
                ex.reopen_working(img);
            }
        }
        Init::Raw(_) => {
            ex.tainted = true;
            let img = image.clone().unwrap();
            ex.reopen_working(img);
        }
    }
    {
        let ord = ex.disk.borrow().ord;
        ex.stats.op_events.push((0, ord));
    }
    for rec in trace.ops.iter() {
        if ex.done {
            break;
        }
        ex.step(rec);
        let ord = ex.disk.borrow().ord;
        ex.stats.op_events.push((rec.id, ord));
    }
    // An API-level divergence ended the run: what would a save put on the
    // medium now?  (The saved bytes are C08's and C10's business even when
    // the divergence itself belongs to another property.)
    if ex.done && cfg.oracles && !ex.tainted && !ex.catalog_edited && !ex.byte_level_failed && ex.writers.is_empty() && !ex.violations.is_empty()
        && !ex.violations.iter().any(|v| v.check.ends_with(".panic") || v.check.ends_with(".hang"))
    {
        if let Some(p) = ex.pkg.as_mut() {
            if let Caught::Val(Ok(())) = guarded(|| p.flush()) {
                let img = ex.disk.borrow().view.clone();
                ex.model.on_save();
                ex.stats.probe("byte_oracle_after_divergence");
                ex.byte_oracle(&img);
                // ... and which tables would a reopen report?  (C06's "after saving and reopening":
                // a run that ended on a row-level divergence never got to its next restart.)
                if !ex.faults_in_play() && !ex.violations.iter().any(|v| v.check.starts_with("C06.")) {
                    let st = Rc::new(RefCell::new(DiskState::new(img.clone(), fault_free(), Vec::new())));
                    match guarded(|| Package::open(SimDisk::new(st.clone()))) {
                        Caught::Val(Ok(mut p2)) => {
                            if let Caught::Val(snap) = guarded(|| snapshot::take(&mut p2)) {
                                let diffs = snapshot::compare(&snap, &ex.model);
                                if let Some(d) = diffs.iter().find(|d| matches!(d.area, Area::Schema | Area::Tables)) {
                                    let m = format!("after the divergence above, saving and reopening: {}", d.msg);
                                    ex.viol("C06.schema-reopen", "after-divergence", m);
                                }
                            }
                        }
                        Caught::Val(Err(e)) => {
                            ex.viol("C06.schema-reopen", "after-divergence", format!("after the divergence above, the saved file does not reopen: {}", e));
                        }
                        Caught::Panic(..) => {}
                    }
                }
            }
        }
    }
    let mut final_image = None;
    if !ex.done && cfg.keep_final {
        if let Some(p) = ex.pkg.take() {
            ex.writers.clear();
            let d = ex.disk.clone();
            if let Caught::Val(Ok(_)) = guarded(move || p.into_inner().map(|_| ())) {
                d.borrow_mut().commit();
                final_image = Some(d.borrow().view.clone());
            }
        }
    }
    // drop whatever is left without letting a panic escape
    let writers = std::mem::take(&mut ex.writers);
    let pkg = ex.pkg.take();
    if let Caught::Panic(loc, msg) = guarded(move || {
        drop(writers);
        drop(pkg);
    }) {
        ex.panic_violation("drop", loc, msg, false);
    }
    ex.retire_disk();
    violations.append(&mut ex.violations);
    let tainted = ex.tainted;
    let no_model = ex.tainted || ex.catalog_edited;
    let mut stats = ex.stats;
    stats.tainted = tainted;
    RunResult { violations, stats, final_image, model: if no_model { None } else { Some(ex.model) } }
}
