//! Code page oracle, independent of msi::CodePage: the encoding each id's
//! documented name denotes, via encoding_rs called directly.

use encoding_rs::Encoding;

pub const ALL_IDS: [u32; 26] = [
    932, 936, 949, 950, 951, 1250, 1251, 1252, 1253, 1254, 1255, 1256, 1257, 1258, 10000, 10007,
    20127, 28591, 28592, 28593, 28594, 28595, 28596, 28597, 28598, 65001,
];

enum Kind {
    Enc(&'static Encoding),
    Ascii,
    Latin1,
}

fn kind(id: u32) -> Option<Kind> {
    Some(match id {
        0 | 65001 => Kind::Enc(encoding_rs::UTF_8),
        932 => Kind::Enc(encoding_rs::SHIFT_JIS),
        936 => Kind::Enc(encoding_rs::GBK),
        949 => Kind::Enc(encoding_rs::EUC_KR),
        950 | 951 => Kind::Enc(encoding_rs::BIG5),
        1250 => Kind::Enc(encoding_rs::WINDOWS_1250),
        1251 => Kind::Enc(encoding_rs::WINDOWS_1251),
        1252 => Kind::Enc(encoding_rs::WINDOWS_1252),
        1253 => Kind::Enc(encoding_rs::WINDOWS_1253),
        1254 => Kind::Enc(encoding_rs::WINDOWS_1254),
        1255 => Kind::Enc(encoding_rs::WINDOWS_1255),
        1256 => Kind::Enc(encoding_rs::WINDOWS_1256),
        1257 => Kind::Enc(encoding_rs::WINDOWS_1257),
        1258 => Kind::Enc(encoding_rs::WINDOWS_1258),
        10000 => Kind::Enc(encoding_rs::MACINTOSH),
        10007 => Kind::Enc(encoding_rs::X_MAC_CYRILLIC),
        20127 => Kind::Ascii,
        28591 => Kind::Latin1,
        28592 => Kind::Enc(encoding_rs::ISO_8859_2),
        28593 => Kind::Enc(encoding_rs::ISO_8859_3),
        28594 => Kind::Enc(encoding_rs::ISO_8859_4),
        28595 => Kind::Enc(encoding_rs::ISO_8859_5),
        28596 => Kind::Enc(encoding_rs::ISO_8859_6),
        28597 => Kind::Enc(encoding_rs::ISO_8859_7),
        28598 => Kind::Enc(encoding_rs::ISO_8859_8),
        _ => return None,
    })
}

pub fn known(id: u32) -> bool {
    kind(id).is_some()
}

/// Encodes if every character is representable; None otherwise.
pub fn encode_strict(id: u32, s: &str) -> Option<Vec<u8>> {
    match kind(id)? {
        Kind::Ascii => {
            if s.is_ascii() {
                Some(s.as_bytes().to_vec())
            } else {
                None
            }
        }
        Kind::Latin1 => {
            let mut out = Vec::with_capacity(s.len());
            for c in s.chars() {
                let v = c as u32;
                if v < 0x80 || (0xa0..=0xff).contains(&v) {
                    out.push(v as u8);
                } else {
                    return None;
                }
            }
            Some(out)
        }
        Kind::Enc(e) => {
            let (bytes, _, had_errors) = e.encode(s);
            if had_errors {
                None
            } else {
                Some(bytes.into_owned())
            }
        }
    }
}

pub fn decode(id: u32, b: &[u8]) -> Option<String> {
    match kind(id)? {
        Kind::Ascii => Some(
            b.iter().map(|&c| if c < 0x80 { c as char } else { '\u{fffd}' }).collect(),
        ),
        Kind::Latin1 => Some(b.iter().map(|&c| c as char).collect()),
        Kind::Enc(e) => Some(e.decode_without_bom_handling(b).0.into_owned()),
    }
}

/// True if `c` survives encode+decode in this page (and is not a C0/C1
/// control, which we keep out of generated text).
pub fn roundtrips(id: u32, c: char) -> bool {
    if (c as u32) < 0x20 || (0x7f..0xa0).contains(&(c as u32)) {
        return false;
    }
    let s = c.to_string();
    match encode_strict(id, &s) {
        Some(b) => decode(id, &b).as_deref() == Some(s.as_str()),
        None => false,
    }
}

/// Candidate non-ASCII characters from which per-run alphabets are filtered.
pub const CANDIDATES: &str = "þï»é¿ÀßøÿŁžšćЖяЇґαωΩאתبيกๆあアカ漢字日本中文한글가힣€™•…ŧĦıİğŞəơưỡ¡©±ÆÐÞ÷ĀēĮņŪ☃😀ÿÄÖÜäöüñçÅ\u{fffd}";

/// Non-ASCII characters that round-trip in every page of `ids`.
pub fn common_chars(ids: &[u32]) -> Vec<char> {
    let mut seen = Vec::new();
    for c in CANDIDATES.chars() {
        if !seen.contains(&c) && ids.iter().all(|&id| roundtrips(id, c)) {
            seen.push(c);
        }
    }
    seen
}

pub fn representable(id: u32, s: &str) -> bool {
    match encode_strict(id, s) {
        Some(b) => decode(id, &b).as_deref() == Some(s),
        None => false,
    }
}
