//! The foreign writer: an independent encoder that produces MSI databases
//! from an abstract description plus format knobs none of which a
//! library-created file ever has.  Stands in for other MSI tooling.

use crate::codec::{self, PVal, RawStream};
use crate::model::*;
use crate::names;
use crate::ops::*;
use crate::prng::Prng;
use serde::{Deserialize, Serialize};
use std::collections::BTreeMap;

#[derive(Clone, Debug, PartialEq, Serialize, Deserialize)]
pub struct FTable {
    pub name: String,
    pub cols: Vec<ColSpec>,
    pub rows: Vec<Vec<Val>>,
    /// rows are written in ascending key order
    pub sorted: bool,
    /// write integer type words with field size 1 for 16-bit columns
    #[serde(default)]
    pub width1: bool,
}

#[derive(Clone, Debug, PartialEq, Serialize, Deserialize)]
pub enum FProp {
    I2(i16),
    I4(i32),
    I1(i8),
    Str(String),
    Time(u64),
    Empty,
    Null,
}

#[derive(Clone, Debug, PartialEq, Serialize, Deserialize)]
pub struct FSummary {
    /// code page property (None: property absent)
    pub codepage: Option<u32>,
    pub props: Vec<(u32, FProp)>,
    /// permutation seed for the order of values in the section
    pub layout_seed: u64,
    pub section_offset: u32,
    pub gaps: bool,
    pub os: u16,
    pub version: u16,
}

#[derive(Clone, Debug, PartialEq, Serialize, Deserialize)]
pub struct ForeignSpec {
    pub ptype: PType,
    pub codepage: u32,
    pub long_refs: bool,
    pub tables: Vec<FTable>,
    pub validation: bool,
    pub pool_holes: u32,
    pub pool_dups: bool,
    pub overcount: u32,
    /// pad the pool with this many empty entries at the front (to push
    /// indices past 65535 with three-byte references)
    pub pool_pad: u32,
    pub pool_seed: u64,
    pub summary: FSummary,
    pub streams: Vec<(String, u32, u32)>,
    pub signature: bool,
    pub docsummary: bool,
    /// shuffle catalog rows instead of writing them sorted
    pub shuffle_catalog: bool,
    /// put the strings the catalog tables use at the front of the pool
    #[serde(default)]
    pub catalog_first: bool,
    /// _Validation rows for (table, column) pairs of tables the file does
    /// not contain (common in real-world packages)
    #[serde(default)]
    pub stale_validation: Vec<(String, String)>,
    /// this string's pool entry is written with refcount 65535 (over-counted
    /// to saturation), whatever the number of cells that use it
    #[serde(default)]
    pub saturate: Option<String>,
    /// `_Validation.Category` cells use the alternate spellings other tools
    /// write ("Guid", "FormattedSddlText")
    #[serde(default)]
    pub alt_category: bool,
}

fn strip_for_no_validation(c: &ColSpec) -> ColSpec {
    let mut c = c.clone();
    c.range = None;
    c.fk = None;
    c.category = None;
    c.enums = Vec::new();
    c
}

struct Catalog {
    tables_rows: Vec<Vec<Val>>,
    columns_rows: Vec<Vec<Val>>,
    validation_rows: Vec<Vec<Val>>,
}

impl ForeignSpec {
    pub fn exact_refcounts(&self) -> bool {
        self.overcount == 0 && self.saturate.is_none()
    }

    fn type_word(&self, t: &FTable, c: &ColSpec) -> i32 {
        let mut w = type_word(c);
        if t.width1 && c.ty == CType::I16 {
            w = (w & !0xff) | 1;
        }
        w
    }

    fn catalog(&self) -> Catalog {
        let mut names_list: Vec<(String, Vec<ColSpec>, Option<&FTable>)> =
            self.tables.iter().map(|t| (t.name.clone(), t.cols.clone(), Some(t))).collect();
        if self.validation {
            names_list.push(("_Validation".to_string(), validation_cols(), None));
        }
        let mut tables_rows = Vec::new();
        let mut columns_rows = Vec::new();
        let mut validation_rows = Vec::new();
        for (n, cols, ft) in names_list.iter() {
            tables_rows.push(vec![Val::Str(n.clone())]);
            for (i, c) in cols.iter().enumerate() {
                let tw = match ft {
                    Some(t) => self.type_word(t, c),
                    None => type_word(c),
                };
                columns_rows.push(vec![
                    Val::Str(n.clone()),
                    Val::Int(i as i32 + 1),
                    Val::Str(c.name.clone()),
                    Val::Int(tw),
                ]);
                if self.validation {
                    let mut vr = validation_row(n, c);
                    if self.alt_category {
                        vr[7] = match &vr[7] {
                            Val::Str(k) if k == "GUID" => Val::Str("Guid".into()),
                            Val::Str(k) if k == "FormattedSDDLText" => Val::Str("FormattedSddlText".into()),
                            other => other.clone(),
                        };
                    }
                    validation_rows.push(vr);
                }
            }
        }
        if self.validation {
            for (t, c) in self.stale_validation.iter() {
                let col = ColSpec::new(c, CType::I16);
                validation_rows.push(validation_row(t, &col));
            }
        }
        let sort = |rows: &mut Vec<Vec<Val>>, nkeys: usize| {
            rows.sort_by(|a, b| key_cmp(&a[..nkeys], &b[..nkeys]));
        };
        sort(&mut tables_rows, 1);
        sort(&mut columns_rows, 2);
        sort(&mut validation_rows, 2);
        if self.shuffle_catalog {
            let mut rng = Prng::new(self.pool_seed ^ 0x77);
            rng.shuffle(&mut tables_rows);
            rng.shuffle(&mut columns_rows);
            rng.shuffle(&mut validation_rows);
        }
        Catalog { tables_rows, columns_rows, validation_rows }
    }

    /// The abstract database this file denotes, as the API should report it.
    pub fn model(&self) -> Model {
        let cat = self.catalog();
        let mut m = Model {
            ptype: self.ptype,
            db_cp: if self.codepage == 0 { 0 } else { self.codepage },
            tables: BTreeMap::new(),
            streams: BTreeMap::new(),
            summary: SummaryM::default(),
            sig: self.signature,
            sig_ex: false,
            docsum: self.docsummary,
            pool_slots: if self.long_refs { None } else { Some(65535) },
            saturated: self.saturate.iter().cloned().collect(),
        };
        let catalog_sorted = !self.shuffle_catalog;
        let mk = |cols: Vec<ColSpec>, rows: Vec<Vec<Val>>| TableM {
            cols,
            rows,
            ordered: catalog_sorted,
            exact_seq: true,
            plain: false,
            catalog: true,
        };
        m.tables.insert("_Tables".into(), mk(tables_cols(), cat.tables_rows));
        m.tables.insert("_Columns".into(), mk(columns_cols(), cat.columns_rows));
        if self.validation {
            m.tables.insert("_Validation".into(), mk(validation_cols(), cat.validation_rows));
        }
        for t in self.tables.iter() {
            let cols: Vec<ColSpec> = if self.validation {
                t.cols.clone()
            } else {
                t.cols.iter().map(strip_for_no_validation).collect()
            };
            let plain = cols.iter().all(col_is_plain) && t.name.chars().count() <= 32;
            let rows: Vec<Vec<Val>> = t.rows.iter().map(|r| r.iter().cloned().map(Val::norm).collect()).collect();
            m.tables.insert(
                t.name.clone(),
                TableM { cols, rows, ordered: t.sorted, exact_seq: true, plain, catalog: false },
            );
        }
        for (n, len, dseed) in self.streams.iter() {
            m.apply_write_stream(n, *dseed, &[WStep::Write(*len)]);
        }
        // summary
        let s = &self.summary;
        let cp = s.codepage.unwrap_or(65001);
        m.summary.codepage = if s.codepage == Some(0) { 0 } else { cp };
        for (id, p) in s.props.iter() {
            match (id, p) {
                (2, FProp::Str(x)) => {
                    m.summary.strs.insert(0, SStr::Exact(x.clone()));
                }
                (3, FProp::Str(x)) => {
                    m.summary.strs.insert(1, SStr::Exact(x.clone()));
                }
                (4, FProp::Str(x)) => {
                    m.summary.strs.insert(2, SStr::Exact(x.clone()));
                }
                (6, FProp::Str(x)) => {
                    m.summary.strs.insert(3, SStr::Exact(x.clone()));
                }
                (18, FProp::Str(x)) => {
                    m.summary.strs.insert(4, SStr::Exact(x.clone()));
                }
                (9, FProp::Str(x)) => {
                    let t = x.trim_start_matches('{').trim_end_matches('}');
                    m.summary.uuid = uuid::Uuid::parse_str(t).ok().map(|u| u.as_u128());
                }
                (15, FProp::I4(n)) => m.summary.word_count = Some(*n),
                (12, FProp::Time(t)) => {
                    let nanos = *t as i128 * 100 - 11_644_473_600i128 * 1_000_000_000;
                    m.summary.time = Some((nanos.div_euclid(1_000_000_000) as i64, nanos.rem_euclid(1_000_000_000) as u32));
                }
                (7, FProp::Str(x)) => {
                    m.summary.template_set = true;
                    let (a, l) = match x.split_once(';') {
                        Some((a, l)) => (a, l),
                        None => (x.as_str(), ""),
                    };
                    m.summary.arch = if a.is_empty() { None } else { Some(SStr::Exact(a.to_string())) };
                    m.summary.langs = l.split(',').filter_map(|c| c.parse().ok()).collect();
                }
                (id, p) if ![1u32, 2, 3, 4, 6, 7, 9, 12, 15, 18].contains(id) => {
                    m.summary.extra.push((
                        *id,
                        match p {
                            FProp::Str(x) => ExtraVal::Str(x.clone()),
                            other => ExtraVal::Other(format!("{:?}", other)),
                        },
                    ));
                }
                _ => {}
            }
        }
        m
    }

    pub fn encode(&self) -> Result<Vec<u8>, String> {
        let cat = self.catalog();
        let cp = self.codepage;
        // ---- gather cells
        struct T<'a> {
            name: String,
            cols: Vec<(ColSpec, i32)>,
            rows: &'a [Vec<Val>],
        }
        let vcols = validation_cols();
        let mut ts: Vec<T> = Vec::new();
        ts.push(T { name: "_Tables".into(), cols: tables_cols().into_iter().map(|c| { let w = type_word(&c); (c, w) }).collect(), rows: &cat.tables_rows });
        ts.push(T { name: "_Columns".into(), cols: columns_cols().into_iter().map(|c| { let w = type_word(&c); (c, w) }).collect(), rows: &cat.columns_rows });
        if self.validation {
            ts.push(T { name: "_Validation".into(), cols: vcols.iter().map(|c| (c.clone(), type_word(c))).collect(), rows: &cat.validation_rows });
        }
        for t in self.tables.iter() {
            ts.push(T {
                name: t.name.clone(),
                cols: t.cols.iter().map(|c| (c.clone(), self.type_word(t, c))).collect(),
                rows: &t.rows,
            });
        }
        // ---- pool
        let mut counts: BTreeMap<&str, u32> = BTreeMap::new();
        for t in ts.iter() {
            for r in t.rows.iter() {
                for v in r.iter() {
                    if let Val::Str(s) = v {
                        if !s.is_empty() {
                            *counts.entry(s.as_str()).or_insert(0) += 1;
                        }
                    }
                }
            }
        }
        let mut rng = Prng::new(self.pool_seed);
        // entries: (text or None for hole, refcount)
        let mut entries: Vec<(Option<&str>, u32)> = Vec::new();
        let mut keys: Vec<&str> = counts.keys().cloned().collect();
        rng.shuffle(&mut keys);
        let mut front = 0usize;
        if self.catalog_first {
            let mut cat_strings: std::collections::HashSet<&str> = std::collections::HashSet::new();
            for t in ts.iter().filter(|t| t.name.starts_with('_')) {
                for r in t.rows.iter() {
                    for v in r.iter() {
                        if let Val::Str(s) = v {
                            cat_strings.insert(s.as_str());
                        }
                    }
                }
            }
            let (a, b): (Vec<&str>, Vec<&str>) = keys.iter().partition(|k| cat_strings.contains(*k));
            front = a.len();
            keys = a.into_iter().chain(b.into_iter()).collect();
        }
        for s in keys.iter() {
            let n = counts[s];
            if self.pool_dups && n >= 2 && rng.chance(500) {
                entries.push((Some(s), n / 2));
                entries.push((Some(s), n - n / 2));
            } else {
                entries.push((Some(s), n));
            }
        }
        for _ in 0..self.pool_holes {
            let lo = if self.catalog_first { (front * 2).min(entries.len()) } else { 0 };
            let at = lo + rng.usize_below(entries.len() - lo + 1);
            entries.insert(at, (None, 0));
        }
        if self.pool_pad > 0 {
            // (prepended in one go: inserting one by one is quadratic, and every fault plan of a
            // script re-encodes its start image)
            let mut padded: Vec<(Option<&str>, u32)> = vec![(None, 0); self.pool_pad as usize];
            padded.append(&mut entries);
            entries = padded;
        }
        if !self.long_refs && entries.len() > 0xffff {
            return Err("too many pool entries for two-byte references".into());
        }
        // index lists per string; cells take them round-robin honouring counts
        let mut slots: BTreeMap<&str, Vec<(u32, u32)>> = BTreeMap::new();
        for (i, (t, n)) in entries.iter().enumerate() {
            if let Some(t) = t {
                slots.entry(t).or_default().push((i as u32 + 1, *n));
            }
        }
        let mut take = |s: &str| -> u32 {
            let v = slots.get_mut(s).unwrap();
            for e in v.iter_mut() {
                if e.1 > 0 {
                    e.1 -= 1;
                    return e.0;
                }
            }
            v[0].0
        };
        // ---- table streams
        let mut streams: Vec<RawStream> = Vec::new();
        for t in ts.iter() {
            let mut out = Vec::new();
            for (ci, (c, _tw)) in t.cols.iter().enumerate() {
                for r in t.rows.iter() {
                    let v = &r[ci];
                    match c.ty {
                        CType::I16 => out.extend_from_slice(&codec::enc_i16(match v {
                            Val::Int(n) => Some(*n),
                            _ => None,
                        })),
                        CType::I32 => out.extend_from_slice(&codec::enc_i32(match v {
                            Val::Int(n) => Some(*n),
                            _ => None,
                        })),
                        CType::Str(_) => {
                            let idx = match v {
                                Val::Str(s) if !s.is_empty() => take(s),
                                _ => 0,
                            };
                            out.extend_from_slice(&(idx as u16).to_le_bytes());
                            if self.long_refs {
                                out.push((idx >> 16) as u8);
                            }
                        }
                    }
                }
            }
            if !(t.rows.is_empty() && t.name != "_Tables" && t.name != "_Columns" && rng.chance(500)) {
                streams.push(RawStream { name: names::pack(&t.name, true), data: out });
            }
        }
        let mut pool = Vec::new();
        let mut data = Vec::new();
        pool.extend_from_slice(&((cp & 0x7fff_ffff) | if self.long_refs { 0x8000_0000 } else { 0 }).to_le_bytes());
        let mut over = self.overcount;
        for (t, n) in entries.iter() {
            match t {
                None => pool.extend_from_slice(&[0, 0, 0, 0]),
                Some(s) => {
                    let b = crate::cp::encode_strict(cp, s).ok_or_else(|| format!("{:?} not encodable in {}", s, cp))?;
                    let mut rc = *n;
                    if self.saturate.as_deref() == Some(*s) {
                        rc = 0xffff;
                    }
                    if over > 0 && rc < 0xff00 {
                        rc += 1 + (over % 3);
                        over -= 1;
                    }
                    if b.len() > 0xffff {
                        pool.extend_from_slice(&0u16.to_le_bytes());
                        pool.extend_from_slice(&((b.len() >> 16) as u16).to_le_bytes());
                    }
                    pool.extend_from_slice(&((b.len() & 0xffff) as u16).to_le_bytes());
                    pool.extend_from_slice(&(rc.min(0xffff) as u16).to_le_bytes());
                    data.extend_from_slice(&b);
                }
            }
        }
        streams.push(RawStream { name: names::pack("_StringPool", true), data: pool });
        streams.push(RawStream { name: names::pack("_StringData", true), data });
        // ---- summary
        let s = &self.summary;
        let scp = s.codepage.unwrap_or(65001);
        let mut props: Vec<(u32, PVal)> = Vec::new();
        if let Some(c) = s.codepage {
            props.push((1, PVal::I2(c as u16 as i16)));
        }
        for (id, p) in s.props.iter() {
            props.push((
                *id,
                match p {
                    FProp::I2(x) => PVal::I2(*x),
                    FProp::I4(x) => PVal::I4(*x),
                    FProp::I1(x) => PVal::I1(*x),
                    FProp::Str(x) => PVal::Str(
                        crate::cp::encode_strict(scp, x).ok_or_else(|| format!("{:?} not encodable in {}", x, scp))?,
                    ),
                    FProp::Time(t) => PVal::Time(*t),
                    FProp::Empty => PVal::Empty,
                    FProp::Null => PVal::Null,
                },
            ));
        }
        let mut lrng = Prng::new(s.layout_seed);
        lrng.shuffle(&mut props);
        let mut order: Vec<usize> = (0..props.len()).collect();
        lrng.shuffle(&mut order);
        let sum = codec::write_propset(
            s.version,
            s.os,
            10,
            &codec::FMTID_SUMMARY,
            &props,
            &order,
            s.section_offset as usize,
            s.gaps,
        );
        streams.push(RawStream { name: names::SUMMARY.to_string(), data: sum });
        for (n, len, dseed) in self.streams.iter() {
            let mut d = Vec::new();
            apply_wsteps(*dseed, &[WStep::Write(*len)], &mut d);
            streams.push(RawStream { name: names::pack(n, false), data: d });
        }
        if self.signature {
            streams.push(RawStream { name: names::SIG.to_string(), data: b"signature".to_vec() });
        }
        if self.docsummary {
            streams.push(RawStream { name: names::DOCSUMMARY.to_string(), data: vec![0u8; 48] });
        }
        let mut srng = Prng::new(self.pool_seed ^ 0x1234);
        srng.shuffle(&mut streams);
        codec::build_container(codec::clsid_of(self.ptype), &streams)
    }
}

/// What another tool does to a closed file: adds raw streams with `cfb`.
pub fn add_streams(image: &[u8], add: &[(&str, Vec<u8>)]) -> Result<Vec<u8>, String> {
    use std::io::Write;
    let mut comp = cfb::CompoundFile::open(std::io::Cursor::new(image.to_vec())).map_err(|e| e.to_string())?;
    for (name, data) in add {
        let mut path = std::path::PathBuf::from("/");
        path.push(name);
        let mut s = comp.create_stream(&path).map_err(|e| e.to_string())?;
        s.write_all(data).map_err(|e| e.to_string())?;
        s.flush().map_err(|e| e.to_string())?;
    }
    comp.flush().map_err(|e| e.to_string())?;
    Ok(comp.into_inner().into_inner())
}
