//! One integer decides everything: SplitMix64-derived streams.

#[derive(Clone, Debug)]
pub struct Prng {
    s: u64,
}

pub fn mix64(mut z: u64) -> u64 {
    z = z.wrapping_add(0x9e37_79b9_7f4a_7c15);
    z = (z ^ (z >> 30)).wrapping_mul(0xbf58_476d_1ce4_e5b9);
    z = (z ^ (z >> 27)).wrapping_mul(0x94d0_49bb_1331_11eb);
    z ^ (z >> 31)
}

/// Stateless mixing of several integers into one (used for per-run seeds and
/// for stateless fault decisions keyed by stable identifiers).
pub fn mix(parts: &[u64]) -> u64 {
    let mut h = 0x243f_6a88_85a3_08d3u64;
    for &p in parts {
        h = mix64(h ^ mix64(p));
    }
    h
}

pub fn hash_str(s: &str) -> u64 {
    let mut h = 0xcbf2_9ce4_8422_2325u64;
    for b in s.bytes() {
        h = (h ^ b as u64).wrapping_mul(0x100_0000_01b3);
    }
    mix64(h)
}

impl Prng {
    pub fn new(seed: u64) -> Prng {
        Prng { s: mix64(seed ^ 0x5151_5151) }
    }

    /// Independent sub-stream.
    pub fn fork(&self, label: u64) -> Prng {
        Prng::new(mix(&[self.s, label]))
    }

    pub fn next_u64(&mut self) -> u64 {
        self.s = self.s.wrapping_add(0x9e37_79b9_7f4a_7c15);
        let mut z = self.s;
        z = (z ^ (z >> 30)).wrapping_mul(0xbf58_476d_1ce4_e5b9);
        z = (z ^ (z >> 27)).wrapping_mul(0x94d0_49bb_1331_11eb);
        z ^ (z >> 31)
    }

    /// Uniform in 0..n (n > 0).
    pub fn below(&mut self, n: u64) -> u64 {
        debug_assert!(n > 0);
        ((self.next_u64() as u128 * n as u128) >> 64) as u64
    }

    pub fn usize_below(&mut self, n: usize) -> usize {
        self.below(n as u64) as usize
    }

    /// Uniform in lo..=hi.
    pub fn range(&mut self, lo: i64, hi: i64) -> i64 {
        lo + self.below((hi - lo + 1) as u64) as i64
    }

    /// True with probability permille/1000.
    pub fn chance(&mut self, permille: u32) -> bool {
        self.below(1000) < permille as u64
    }

    pub fn pick<'a, T>(&mut self, items: &'a [T]) -> &'a T {
        &items[self.usize_below(items.len())]
    }

    pub fn weighted(&mut self, weights: &[u32]) -> usize {
        let total: u64 = weights.iter().map(|&w| w as u64).sum();
        let mut x = self.below(total.max(1));
        for (i, &w) in weights.iter().enumerate() {
            if x < w as u64 {
                return i;
            }
            x -= w as u64;
        }
        weights.len() - 1
    }

    pub fn shuffle<T>(&mut self, items: &mut [T]) {
        for i in (1..items.len()).rev() {
            let j = self.usize_below(i + 1);
            items.swap(i, j);
        }
    }
}
