mod codec;
mod corrupt;
mod cp;
mod decodecheck;
mod disk;
mod exec;
mod faultenum;
mod foreign;
mod gen;
mod limits;
mod model;
mod names;
mod ops;
mod prng;
mod runner;
mod selftest;
mod snapshot;
mod twin;

fn usage() -> i32 {
    eprintln!("usage: msisim check <property> <quick|thorough> | replay <file> | selftest [n] | gen <property> <profile> <seed> <run> | digest <property> <profile> <seed> <from> <to>");
    2
}

fn main() {
    exec::install_panic_hook();
    let args: Vec<String> = std::env::args().collect();
    let code = match args.get(1).map(|s| s.as_str()) {
        Some("check") if args.len() >= 4 => runner::check(&args[2], &args[3]),
        Some("replay") if args.len() >= 3 => runner::replay(&args[2]),
        Some("selftest") => selftest::selftest(args.get(2).and_then(|s| s.parse().ok()).unwrap_or(300)),
        Some("scenario") if args.len() >= 4 => {
            // one boundary scenario (limits.rs), run and reported: msisim scenario <seed> <index>
            let t = limits::scenario(args[2].parse().unwrap(), args[3].parse().unwrap());
            let r = runner::run_one(&t);
            for v in r.violations.iter() {
                println!("violation: check={} site={} op_id={} message={}", v.check, v.site, v.op_id, &v.message.chars().take(300).collect::<String>());
            }
            println!("ops={} violations={}", t.ops.len(), r.violations.len());
            0
        }
        Some("gen") if args.len() >= 6 => {
            let p = gen::Profile::parse(&args[3]).expect("profile");
            let t = gen::generate(&args[2], p, args[4].parse().unwrap(), args[5].parse().unwrap());
            print!("{}", t.to_json());
            0
        }
        Some("run") if args.len() >= 6 => {
            let p = gen::Profile::parse(&args[3]).expect("profile");
            let t = gen::generate(&args[2], p, args[4].parse().unwrap(), args[5].parse().unwrap());
            let r = runner::run_one(&t);
            for v in r.violations.iter() {
                println!("violation: check={} site={} op_id={} message={}", v.check, v.site, v.op_id, v.message);
            }
            if args.len() >= 7 {
                if let Some(v) = r.violations.first() {
                    let f = runner::Found { trace: t.clone(), violation: v.clone() };
                    let (mt, mv, n) = runner::minimise(&f, 600);
                    println!("minimised in {} executions: {}", n, mv.message);
                    print!("{}", mt.to_json());
                }
            }
            0
        }
        Some("faults") if args.len() >= 6 => {
            // per-op event counts of a script and the outcome of every read fault in op 0
            let t = faultenum::script(args[4].parse().unwrap(), args[5].parse().unwrap());
            let base = runner::run_one(&t);
            println!("base violations: {:?}", base.violations.iter().map(|v| &v.check).collect::<Vec<_>>());
            for (id, c) in base.stats.op_events.iter() {
                println!("op {} events r/w/s/f {:?}", id, c);
            }
            let (id, c) = base.stats.op_events[0];
            for nth in 0..c[0] {
                let mut t2 = t.clone();
                t2.faults = vec![disk::FaultSpec { op_id: id, kind: disk::EvKind::Read, nth, persistent: false }];
                let r = runner::run_one(&t2);
                println!(
                    "read fault {} -> tainted={} ops={} viol={:?}",
                    nth,
                    r.stats.tainted,
                    r.stats.ops,
                    r.violations.iter().map(|v| v.check.clone()).collect::<Vec<_>>()
                );
            }
            0
        }
        Some("ovf") => {
            // does the msi crate run with overflow checks? (i32::MAX + 1 inside Expr)
            let r = exec::guarded(|| {
                let e = msi::Expr::integer(i32::MAX) + msi::Expr::integer(std::env::args().count() as i32 - 1);
                format!("{}", e)
            });
            if let Ok(bytes) = std::fs::read("/tmp/msisim_debug_image.msi") {
                let r2 = exec::guarded(|| {
                    let mut p = msi::Package::open(std::io::Cursor::new(bytes)).unwrap();
                    format!("{:?}", p.insert_rows(msi::Insert::into("T1").row(vec![msi::Value::Int(1)])))
                });
                match r2 {
                    exec::Caught::Val(v) => println!("insert into grown pool: {}", v),
                    exec::Caught::Panic(loc, msg) => println!("insert into grown pool panicked at {}: {}", loc, msg),
                }
            }
            match r {
                exec::Caught::Val(v) => println!("no overflow check: {}", v),
                exec::Caught::Panic(loc, msg) => println!("overflow checked at {}: {}", loc, msg),
            }
            0
        }
        Some("digest") if args.len() >= 7 => {
            // prints one line per run: run index and its event-log digest
            let p = gen::Profile::parse(&args[3]).expect("profile");
            let seed: u64 = args[4].parse().unwrap();
            let from: u64 = args[5].parse().unwrap();
            let to: u64 = args[6].parse().unwrap();
            for run in from..to {
                let t = gen::generate(&args[2], p, seed, run);
                let r = runner::run_one(&t);
                println!(
                    "{} {:016x} ops={} viol={} events={}",
                    run,
                    r.stats.digest,
                    r.stats.ops,
                    r.violations.iter().map(|v| v.check.clone()).collect::<Vec<_>>().join(","),
                    r.stats.disk.total_events()
                );
            }
            0
        }
        _ => usage(),
    };
    std::process::exit(code);
}
