//! MSI stream-name packing, written from the format description (shares no
//! code with msi::streamname).

pub const TABLE_MARK: char = '\u{4840}';
pub const SUMMARY: &str = "\u{5}SummaryInformation";
pub const DOCSUMMARY: &str = "\u{5}DocumentSummaryInformation";
pub const SIG: &str = "\u{5}DigitalSignature";
pub const SIG_EX: &str = "\u{5}MsiDigitalSignatureEx";

fn b64(c: char) -> Option<u32> {
    match c {
        '0'..='9' => Some(c as u32 - '0' as u32),
        'A'..='Z' => Some(c as u32 - 'A' as u32 + 10),
        'a'..='z' => Some(c as u32 - 'a' as u32 + 36),
        '.' => Some(62),
        '_' => Some(63),
        _ => None,
    }
}

fn unb64(v: u32) -> char {
    const T: &[u8; 64] = b"0123456789ABCDEFGHIJKLMNOPQRSTUVWXYZabcdefghijklmnopqrstuvwxyz._";
    T[v as usize] as char
}

pub fn pack(name: &str, table: bool) -> String {
    let cs: Vec<char> = name.chars().collect();
    let mut out = String::new();
    if table {
        out.push(TABLE_MARK);
    }
    let mut i = 0;
    while i < cs.len() {
        match b64(cs[i]) {
            Some(a) => {
                if i + 1 < cs.len() {
                    if let Some(b) = b64(cs[i + 1]) {
                        out.push(char::from_u32(0x3800 + (b << 6) + a).unwrap());
                        i += 2;
                        continue;
                    }
                }
                out.push(char::from_u32(0x4800 + a).unwrap());
                i += 1;
            }
            None => {
                out.push(cs[i]);
                i += 1;
            }
        }
    }
    out
}

pub fn unpack(enc: &str) -> (String, bool) {
    let mut out = String::new();
    let mut table = false;
    for (i, c) in enc.chars().enumerate() {
        let v = c as u32;
        if i == 0 && c == TABLE_MARK {
            table = true;
        } else if (0x3800..0x4800).contains(&v) {
            out.push(unb64((v - 0x3800) & 0x3f));
            out.push(unb64((v - 0x3800) >> 6));
        } else if (0x4800..0x4840).contains(&v) {
            out.push(unb64(v - 0x4800));
        } else {
            out.push(c);
        }
    }
    (out, table)
}

pub fn utf16_len(s: &str) -> usize {
    s.encode_utf16().count()
}

/// The compound-file container compares names by UTF-16 length, then
/// case-insensitively.
pub fn container_key(enc: &str) -> (usize, String) {
    (utf16_len(enc), enc.to_uppercase())
}

pub fn stream_key(name: &str) -> (usize, String) {
    container_key(&pack(name, false))
}

/// Identifier grammar: [A-Za-z_][A-Za-z0-9_.]*
pub fn is_identifier(s: &str) -> bool {
    let mut cs = s.chars();
    match cs.next() {
        Some(c) if c.is_ascii_alphabetic() || c == '_' => {}
        _ => return false,
    }
    cs.all(|c| c.is_ascii_alphanumeric() || c == '_' || c == '.')
}

pub fn table_name_ok(name: &str) -> bool {
    is_identifier(name) && utf16_len(&pack(name, true)) <= 31
}

/// Names about which the property leaves no doubt: accepted iff they fit.
pub fn stream_name_plain(name: &str) -> bool {
    !name.is_empty()
        && !name.chars().any(|c| {
            let v = c as u32;
            (0x3800..=0x4840).contains(&v) || matches!(c, '/' | '\\' | ':' | '!') || v < 0x20
        })
}

pub fn stream_name_fits(name: &str) -> bool {
    !name.is_empty() && utf16_len(&pack(name, false)) <= 31
}
