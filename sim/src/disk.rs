//! SimDisk: the simulated storage medium behind `Package<F>`.
//!
//! Every call is one *medium event*.  Fault decisions are either explicit
//! (`FaultSpec`, keyed by the stable id of the operation that is running, the
//! event kind and the ordinal of that kind inside the operation) or stateless
//! hashes of (disk_seed, op id, kind, ordinal) for the benign faults, so that
//! deleting other operations from a trace does not move them.

use crate::prng::{mix, Prng};
use serde::{Deserialize, Serialize};
use std::cell::RefCell;
use std::io::{self, Read, Seek, SeekFrom, Write};
use std::rc::Rc;

#[derive(Clone, Copy, PartialEq, Eq, Hash, Debug, Serialize, Deserialize)]
pub enum EvKind {
    Read,
    Write,
    Seek,
    Flush,
}

impl EvKind {
    pub fn idx(self) -> usize {
        match self {
            EvKind::Read => 0,
            EvKind::Write => 1,
            EvKind::Seek => 2,
            EvKind::Flush => 3,
        }
    }
    pub fn name(self) -> &'static str {
        match self {
            EvKind::Read => "read",
            EvKind::Write => "write",
            EvKind::Seek => "seek",
            EvKind::Flush => "flush",
        }
    }
}

#[derive(Clone, Debug, Serialize, Deserialize, PartialEq)]
pub struct FaultSpec {
    pub op_id: u32,
    pub kind: EvKind,
    pub nth: u32,
    pub persistent: bool,
}

#[derive(Clone, Debug, Serialize, Deserialize, PartialEq)]
pub struct DiskCfg {
    pub write_back: bool,
    pub eintr_permille: u32,
    pub short_permille: u32,
    pub disk_seed: u64,
    pub capacity: Option<u64>,
}

impl Default for DiskCfg {
    fn default() -> DiskCfg {
        DiskCfg {
            write_back: false,
            eintr_permille: 0,
            short_permille: 0,
            disk_seed: 0,
            capacity: None,
        }
    }
}

#[derive(Clone, Debug, Default)]
pub struct DiskStats {
    pub events: [u64; 4],
    pub bytes_written: u64,
    pub bytes_read: u64,
    pub eintr: u64,
    pub short_read: u64,
    pub short_write: u64,
    pub short_split_small: u64,
    pub hard_transient: [u64; 4],
    pub hard_persistent: [u64; 4],
    pub storage_full: u64,
    pub crashes: u64,
    pub crash_nonempty_cache: u64,
    pub torn_writes: u64,
    pub dead_calls: u64,
}

impl DiskStats {
    pub fn add(&mut self, o: &DiskStats) {
        for i in 0..4 {
            self.events[i] += o.events[i];
            self.hard_transient[i] += o.hard_transient[i];
            self.hard_persistent[i] += o.hard_persistent[i];
        }
        self.bytes_written += o.bytes_written;
        self.bytes_read += o.bytes_read;
        self.eintr += o.eintr;
        self.short_read += o.short_read;
        self.short_write += o.short_write;
        self.short_split_small += o.short_split_small;
        self.storage_full += o.storage_full;
        self.crashes += o.crashes;
        self.crash_nonempty_cache += o.crash_nonempty_cache;
        self.torn_writes += o.torn_writes;
        self.dead_calls += o.dead_calls;
    }
    pub fn total_events(&self) -> u64 {
        self.events.iter().sum()
    }
}

pub const OP_EVENT_BUDGET: u64 = 50_000_000;

pub struct DiskState {
    /// Logical content (durable overlaid with cache).
    pub view: Vec<u8>,
    /// What survives a crash (only maintained in write-back mode).
    durable: Vec<u8>,
    cache: Vec<(u64, Vec<u8>)>,
    pub cfg: DiskCfg,
    pub faults: Vec<FaultSpec>,
    pub cur_op: u32,
    pub ord: [u32; 4],
    pub op_events: u64,
    pub dead: bool,
    persistent: [bool; 4],
    /// A hard fault (anything that made a call return an error other than
    /// EINTR) was injected since the flag was last cleared.
    pub hard_fault_fired: bool,
    /// sticky: some hard fault fired on this disk at some point
    pub ever_hard_fault: bool,
    pub budget_exceeded: bool,
    pub stats: DiskStats,
    pub digest: u64,
}

impl DiskState {
    pub fn new(image: Vec<u8>, cfg: DiskCfg, faults: Vec<FaultSpec>) -> DiskState {
        DiskState {
            durable: if cfg.write_back { image.clone() } else { Vec::new() },
            view: image,
            cache: Vec::new(),
            cfg,
            faults,
            cur_op: 0,
            ord: [0; 4],
            op_events: 0,
            dead: false,
            persistent: [false; 4],
            hard_fault_fired: false,
            ever_hard_fault: false,
            budget_exceeded: false,
            stats: DiskStats::default(),
            digest: 0,
        }
    }

    pub fn begin_op(&mut self, op_id: u32) {
        self.cur_op = op_id;
        self.ord = [0; 4];
        self.op_events = 0;
    }

    /// What a crash at this instant would leave: durable content only, plus a
    /// PRNG-chosen part of the not-yet-flushed cache, possibly torn.
    pub fn crash_image(&mut self, rng: &mut Prng, keep_some: bool) -> Vec<u8> {
        self.stats.crashes += 1;
        if !self.cfg.write_back {
            return self.view.clone();
        }
        let mut img = self.durable.clone();
        if !self.cache.is_empty() {
            self.stats.crash_nonempty_cache += 1;
        }
        if keep_some {
            for (off, bytes) in self.cache.iter() {
                let r = rng.below(4);
                if r == 0 {
                    continue; // lost
                }
                let mut n = bytes.len();
                if r == 1 && bytes.len() > 1 {
                    // torn: a prefix, cut at a 512-byte boundary if possible
                    let cut = rng.usize_below(bytes.len());
                    let abs = *off as usize + cut;
                    let aligned = abs - (abs % 512);
                    n = if aligned > *off as usize { aligned - *off as usize } else { cut };
                    self.stats.torn_writes += 1;
                }
                let end = *off as usize + n;
                if img.len() < end {
                    img.resize(end, 0);
                }
                img[*off as usize..end].copy_from_slice(&bytes[..n]);
            }
        }
        img
    }

    /// Clean close: everything accepted becomes durable.
    pub fn commit(&mut self) {
        if self.cfg.write_back {
            self.durable = self.view.clone();
            self.cache.clear();
        }
    }

    pub fn kill(&mut self) {
        self.dead = true;
    }

    pub fn cache_len(&self) -> usize {
        self.cache.len()
    }

    pub fn durable_image(&self) -> Vec<u8> {
        if self.cfg.write_back {
            self.durable.clone()
        } else {
            self.view.clone()
        }
    }

    fn log(&mut self, kind: EvKind, pos: u64, len: u64, outcome: u64) {
        self.digest = mix(&[self.digest, kind.idx() as u64, pos, len, outcome]);
    }

    /// Common prologue of every medium call.  Returns Err for a dead disk, an
    /// exhausted budget, a persistent failure or an explicit fault.
    fn enter(&mut self, kind: EvKind) -> Result<u32, io::Error> {
        let k = kind.idx();
        let nth = self.ord[k];
        self.ord[k] += 1;
        self.op_events += 1;
        self.stats.events[k] += 1;
        if self.dead {
            self.stats.dead_calls += 1;
            return Err(io::Error::new(io::ErrorKind::Other, "simdisk: dead"));
        }
        if self.op_events > OP_EVENT_BUDGET {
            self.budget_exceeded = true;
            return Err(io::Error::new(io::ErrorKind::Other, "simdisk: event budget exceeded"));
        }
        if self.persistent[k] {
            self.hard_fault_fired = true;
            self.ever_hard_fault = true;
            return Err(if self.ord.iter().sum::<u32>() % 2 == 0 { io::Error::from_raw_os_error(5) } else { io::Error::new(io::ErrorKind::Other, "simdisk: persistent fault") });
        }
        let cur = self.cur_op;
        if let Some(f) = self
            .faults
            .iter()
            .find(|f| f.op_id == cur && f.kind == kind && f.nth == nth)
        {
            let persistent = f.persistent;
            self.hard_fault_fired = true;
            self.ever_hard_fault = true;
            if persistent {
                self.stats.hard_persistent[k] += 1;
                self.persistent[k] = true;
                if kind == EvKind::Write {
                    self.persistent[EvKind::Flush.idx()] = true;
                }
            } else {
                self.stats.hard_transient[k] += 1;
            }
            // what real media return: an OS error, a bare kind, or an error with a payload
            return Err(match self.ord.iter().sum::<u32>() % 3 {
                0 => io::Error::from_raw_os_error(5), // EIO
                1 => io::Error::from(io::ErrorKind::Other),
                _ => io::Error::new(io::ErrorKind::Other, "simdisk: injected fault"),
            });
        }
        Ok(nth)
    }

    fn benign(&self, kind: EvKind, nth: u32, salt: u64) -> u64 {
        mix(&[self.cfg.disk_seed, self.cur_op as u64, kind.idx() as u64, nth as u64, salt])
    }
}

/// The handle given to `Package`.  Cloning the `Rc` lets the harness look at
/// the medium while the package still owns its handle.
pub struct SimDisk {
    pub st: Rc<RefCell<DiskState>>,
    pos: u64,
}

impl SimDisk {
    pub fn new(st: Rc<RefCell<DiskState>>) -> SimDisk {
        SimDisk { st, pos: 0 }
    }
}

impl Read for SimDisk {
    fn read(&mut self, buf: &mut [u8]) -> io::Result<usize> {
        let mut st = self.st.borrow_mut();
        let pos = self.pos;
        let nth = match st.enter(EvKind::Read) {
            Ok(n) => n,
            Err(e) => {
                st.log(EvKind::Read, pos, buf.len() as u64, 1);
                return Err(e);
            }
        };
        if st.cfg.eintr_permille > 0
            && st.benign(EvKind::Read, nth, 1) % 1000 < st.cfg.eintr_permille as u64
        {
            st.stats.eintr += 1;
            st.log(EvKind::Read, pos, buf.len() as u64, 2);
            return Err(io::Error::new(io::ErrorKind::Interrupted, "simdisk: EINTR"));
        }
        let avail = (st.view.len() as u64).saturating_sub(pos) as usize;
        let mut n = buf.len().min(avail);
        if n > 1
            && st.cfg.short_permille > 0
            && st.benign(EvKind::Read, nth, 2) % 1000 < st.cfg.short_permille as u64
        {
            n = 1 + (st.benign(EvKind::Read, nth, 3) % (n as u64 - 1)) as usize;
            st.stats.short_read += 1;
        }
        if n > 0 {
            buf[..n].copy_from_slice(&st.view[pos as usize..pos as usize + n]);
        }
        self.pos += n as u64;
        st.stats.bytes_read += n as u64;
        st.log(EvKind::Read, pos, n as u64, 0);
        Ok(n)
    }
}

impl Write for SimDisk {
    fn write(&mut self, buf: &[u8]) -> io::Result<usize> {
        let mut st = self.st.borrow_mut();
        let pos = self.pos;
        let nth = match st.enter(EvKind::Write) {
            Ok(n) => n,
            Err(e) => {
                st.log(EvKind::Write, pos, buf.len() as u64, 1);
                return Err(e);
            }
        };
        if st.cfg.eintr_permille > 0
            && st.benign(EvKind::Write, nth, 1) % 1000 < st.cfg.eintr_permille as u64
        {
            st.stats.eintr += 1;
            st.log(EvKind::Write, pos, buf.len() as u64, 2);
            return Err(io::Error::new(io::ErrorKind::Interrupted, "simdisk: EINTR"));
        }
        if let Some(cap) = st.cfg.capacity {
            if pos + buf.len() as u64 > cap {
                st.stats.storage_full += 1;
                st.hard_fault_fired = true;
                st.ever_hard_fault = true;
                st.log(EvKind::Write, pos, buf.len() as u64, 3);
                return Err(io::Error::new(io::ErrorKind::StorageFull, "simdisk: disk full"));
            }
        }
        let mut n = buf.len();
        if n > 1
            && st.cfg.short_permille > 0
            && st.benign(EvKind::Write, nth, 2) % 1000 < st.cfg.short_permille as u64
        {
            if n <= 4 {
                st.stats.short_split_small += 1;
            }
            n = 1 + (st.benign(EvKind::Write, nth, 3) % (n as u64 - 1)) as usize;
            st.stats.short_write += 1;
        }
        let end = pos as usize + n;
        if st.view.len() < end {
            st.view.resize(end, 0);
        }
        st.view[pos as usize..end].copy_from_slice(&buf[..n]);
        if st.cfg.write_back {
            st.cache.push((pos, buf[..n].to_vec()));
        }
        self.pos += n as u64;
        st.stats.bytes_written += n as u64;
        st.log(EvKind::Write, pos, n as u64, 0);
        Ok(n)
    }

    fn flush(&mut self) -> io::Result<()> {
        let mut st = self.st.borrow_mut();
        let pos = self.pos;
        if let Err(e) = st.enter(EvKind::Flush) {
            st.log(EvKind::Flush, pos, 0, 1);
            return Err(e);
        }
        st.commit();
        st.log(EvKind::Flush, pos, 0, 0);
        Ok(())
    }
}

impl Seek for SimDisk {
    fn seek(&mut self, from: SeekFrom) -> io::Result<u64> {
        let mut st = self.st.borrow_mut();
        let pos = self.pos;
        if let Err(e) = st.enter(EvKind::Seek) {
            st.log(EvKind::Seek, pos, 0, 1);
            return Err(e);
        }
        let len = st.view.len() as i128;
        let target: i128 = match from {
            SeekFrom::Start(n) => n as i128,
            SeekFrom::End(d) => len + d as i128,
            SeekFrom::Current(d) => pos as i128 + d as i128,
        };
        if target < 0 || target > u64::MAX as i128 {
            st.log(EvKind::Seek, pos, 0, 4);
            return Err(io::Error::new(io::ErrorKind::InvalidInput, "simdisk: bad seek"));
        }
        self.pos = target as u64;
        st.log(EvKind::Seek, pos, target as u64, 0);
        Ok(self.pos)
    }
}
