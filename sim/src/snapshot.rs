//! API snapshot: everything observable through public read calls, and its
//! comparison with the reference model.

use crate::disk::SimDisk;
use crate::model::*;
use crate::ops::*;
use msi::{ColumnType, Package, PackageType, Select, Value};
use std::collections::BTreeMap;
use std::io::Read;
use std::time::{SystemTime, UNIX_EPOCH};

#[derive(Clone, Debug, PartialEq)]
pub struct ColSnap {
    pub name: String,
    pub ty: CType,
    pub nullable: bool,
    pub key: bool,
    pub localizable: bool,
    pub range: Option<(i32, i32)>,
    pub category: Option<String>,
    pub enums: Vec<String>,
}

#[derive(Clone, Debug, PartialEq, Default)]
pub struct TableSnap {
    pub cols: Vec<ColSnap>,
    pub key_idx: Vec<usize>,
    pub rows: Vec<Vec<Val>>,
    pub reported_len: usize,
    pub rows_cols: Vec<String>,
    pub select_err: Option<String>,
    /// API-level inconsistencies (Row::len, index by name vs position, ...)
    pub api_problems: Vec<String>,
    /// (row, col) of cells that Column::is_valid_value rejects
    pub invalid_cells: Vec<(usize, usize)>,
    pub has_table: bool,
}

#[derive(Clone, Debug, PartialEq, Default)]
pub struct SumSnap {
    pub strs: BTreeMap<u8, String>,
    pub uuid: Option<u128>,
    pub word_count: Option<i32>,
    pub time: Option<(i64, u32)>,
    pub arch: Option<String>,
    pub langs: Vec<u16>,
    pub codepage: u32,
}

#[derive(Clone, Debug, PartialEq)]
pub struct Snap {
    pub ptype: PType,
    pub db_cp: u32,
    pub tables: BTreeMap<String, TableSnap>,
    pub stream_list: Vec<String>,
    pub streams: BTreeMap<String, Result<Vec<u8>, String>>,
    pub has_stream_false: Vec<String>,
    pub summary: SumSnap,
    pub has_sig: bool,
}

pub fn to_val(v: &Value) -> Val {
    match v {
        Value::Null => Val::Null,
        Value::Int(i) => Val::Int(*i),
        // the file format has a single value for "" and null
        Value::Str(s) if s.is_empty() => Val::Null,
        Value::Str(s) => Val::Str(s.clone()),
    }
}

pub fn from_val(v: &Val) -> Value {
    match v {
        Val::Null => Value::Null,
        Val::Int(i) => Value::Int(*i),
        Val::Str(s) => Value::Str(s.clone()),
    }
}

pub fn sys_to_pair(t: SystemTime) -> (i64, u32) {
    match t.duration_since(UNIX_EPOCH) {
        Ok(d) => (d.as_secs() as i64, d.subsec_nanos()),
        Err(e) => {
            let d = e.duration();
            if d.subsec_nanos() == 0 {
                (-(d.as_secs() as i64), 0)
            } else {
                (-(d.as_secs() as i64) - 1, 1_000_000_000 - d.subsec_nanos())
            }
        }
    }
}

pub fn pair_to_sys(p: (i64, u32)) -> SystemTime {
    use std::time::Duration;
    if p.0 >= 0 {
        UNIX_EPOCH + Duration::new(p.0 as u64, p.1)
    } else {
        UNIX_EPOCH - Duration::new((-p.0) as u64, 0) + Duration::new(0, p.1)
    }
}

fn col_snap(c: &msi::Column) -> ColSnap {
    ColSnap {
        name: c.name().to_string(),
        ty: match c.coltype() {
            ColumnType::Int16 => CType::I16,
            ColumnType::Int32 => CType::I32,
            ColumnType::Str(n) => CType::Str(n as u32),
        },
        nullable: c.is_nullable(),
        key: c.is_primary_key(),
        localizable: c.is_localizable(),
        range: c.value_range(),
        category: c.category().map(|k| k.to_string()),
        enums: c.enum_values().map(|e| e.to_vec()).unwrap_or_default(),
    }
}

pub fn summary_snap(pkg: &Package<SimDisk>) -> SumSnap {
    let s = pkg.summary_info();
    let mut strs = BTreeMap::new();
    let mut put = |i: u8, v: Option<&str>| {
        if let Some(v) = v {
            strs.insert(i, v.to_string());
        }
    };
    put(0, s.title());
    put(1, s.subject());
    put(2, s.author());
    put(3, s.comments());
    put(4, s.creating_application());
    SumSnap {
        strs,
        uuid: s.uuid().map(|u| u.as_u128()),
        word_count: s.word_count(),
        time: s.creation_time().map(sys_to_pair),
        arch: s.arch().map(|a| a.to_string()),
        langs: s.languages().iter().map(|l| l.code()).collect(),
        codepage: s.codepage().id() as u32,
    }
}

/// Takes the full snapshot.  `with_streams` controls whether stream contents
/// are read (they dominate the cost for large streams).
pub fn take(pkg: &mut Package<SimDisk>) -> Snap {
    let ptype = match pkg.package_type() {
        PackageType::Installer => PType::Installer,
        PackageType::Patch => PType::Patch,
        PackageType::Transform => PType::Transform,
    };
    let db_cp = pkg.database_codepage().id() as u32;
    let listed = pkg.tables().len();
    let names: Vec<String> = pkg.tables().map(|t| t.name().to_string()).collect();
    let mut tables = BTreeMap::new();
    let mut global_problems: Vec<String> = Vec::new();
    if listed != names.len() {
        global_problems.push(format!("tables().len() is {} but {} tables are yielded", listed, names.len()));
    }
    if pkg.has_table("No Such Table") || pkg.get_table("No Such Table").is_some() {
        global_problems.push("has_table/get_table find a table that does not exist".into());
    }
    for name in names {
        let mut ts = TableSnap { has_table: pkg.has_table(&name), ..Default::default() };
        let columns: Vec<msi::Column> = match pkg.get_table(&name) {
            Some(t) => {
                ts.key_idx = t.primary_key_indices();
                if t.name() != name {
                    ts.api_problems.push(format!("get_table({:?}) returned table {:?}", name, t.name()));
                }
                for (i, c) in t.columns().iter().enumerate() {
                    if !t.has_column(c.name()) {
                        ts.api_problems.push(format!("has_column({:?}) is false for a listed column", c.name()));
                    }
                    let first = t.columns().iter().position(|d| d.name() == c.name());
                    if first == Some(i) {
                        match t.get_column(c.name()) {
                            Some(d) => {
                                if col_snap(d) != col_snap(c) {
                                    ts.api_problems.push(format!("get_column({:?}) differs from columns()[{}]", c.name(), i));
                                }
                            }
                            None => ts.api_problems.push(format!("get_column({:?}) is None for a listed column", c.name())),
                        }
                    }
                }
                if t.has_column("No Such Column") || t.get_column("No Such Column").is_some() {
                    ts.api_problems.push("has_column/get_column find a column that does not exist".into());
                }
                t.columns().to_vec()
            }
            None => {
                ts.api_problems.push("tables() lists a table get_table() does not return".into());
                Vec::new()
            }
        };
        ts.cols = columns.iter().map(col_snap).collect();
        match pkg.select_rows(Select::table(name.as_str())) {
            Ok(mut rows) => {
                ts.reported_len = rows.len();
                ts.rows_cols = rows.columns().iter().map(|c| c.name().to_string()).collect();
                let mut n = 0usize;
                loop {
                    let hint = rows.len();
                    let row = match rows.next() {
                        Some(r) => r,
                        None => {
                            if hint != 0 {
                                ts.api_problems.push(format!("len() was {} at exhaustion", hint));
                            }
                            break;
                        }
                    };
                    if hint + n != ts.reported_len {
                        ts.api_problems.push(format!(
                            "len() {} after {} rows does not add up to {}",
                            hint, n, ts.reported_len
                        ));
                    }
                    if row.len() != columns.len() {
                        ts.api_problems.push(format!(
                            "Row::len {} != {} columns",
                            row.len(),
                            columns.len()
                        ));
                    }
                    let mut vals = Vec::with_capacity(row.len());
                    for i in 0..row.len() {
                        let v = &row[i];
                        if i < columns.len() {
                            if row.has_column(columns[i].name()) {
                                // first column of that name wins in by-name indexing
                                let first = columns.iter().position(|c| c.name() == columns[i].name());
                                if first == Some(i) && &row[columns[i].name()] != v {
                                    ts.api_problems.push(format!(
                                        "row[{:?}] != row[{}]",
                                        columns[i].name(),
                                        i
                                    ));
                                }
                            } else {
                                ts.api_problems.push(format!("row lacks column {:?}", columns[i].name()));
                            }
                            let judged = match (v, columns[i].coltype()) {
                                (Value::Null, ColumnType::Str(_)) if !columns[i].is_nullable() => {
                                    Value::Str(String::new())
                                }
                                _ => v.clone(),
                            };
                            if !columns[i].is_valid_value(&judged) {
                                ts.invalid_cells.push((n, i));
                            }
                        }
                        vals.push(to_val(v));
                    }
                    ts.rows.push(vals);
                    n += 1;
                }
            }
            Err(e) => ts.select_err = Some(e.to_string()),
        }
        if !global_problems.is_empty() {
            ts.api_problems.append(&mut global_problems);
        }
        tables.insert(name, ts);
    }
    let stream_list: Vec<String> = pkg.streams().collect();
    let mut streams = BTreeMap::new();
    let mut has_stream_false = Vec::new();
    for n in stream_list.iter() {
        if !pkg.has_stream(n) {
            has_stream_false.push(n.clone());
        }
        let r = match pkg.read_stream(n) {
            Ok(mut rd) => {
                let mut buf = Vec::new();
                match rd.read_to_end(&mut buf) {
                    Ok(_) => Ok(buf),
                    Err(e) => Err(format!("read: {}", e)),
                }
            }
            Err(e) => Err(format!("open: {}", e)),
        };
        streams.insert(n.clone(), r);
    }
    Snap {
        ptype,
        db_cp,
        tables,
        stream_list,
        streams,
        has_stream_false,
        summary: summary_snap(pkg),
        has_sig: pkg.has_digital_signature(),
    }
}

#[derive(Clone, Copy, Debug, PartialEq, Eq)]
pub enum Area {
    Meta,
    Tables,
    Schema,
    Rows,
    Api,
    Unique,
    Order,
    CellValid,
    StreamList,
    StreamContent,
    Summary,
    Signature,
}

#[derive(Clone, Debug)]
pub struct Diff {
    pub area: Area,
    pub msg: String,
}

fn fmt_row(r: &[Val]) -> String {
    let v: Vec<String> = r.iter().map(|x| x.short()).collect();
    format!("({})", v.join(", "))
}

fn rows_eq_multiset(a: &[Vec<Val>], b: &[Vec<Val>]) -> bool {
    if a.len() != b.len() {
        return false;
    }
    let mut x: Vec<&Vec<Val>> = a.iter().collect();
    let mut y: Vec<&Vec<Val>> = b.iter().collect();
    x.sort_by(|p, q| key_cmp(p, q));
    y.sort_by(|p, q| key_cmp(p, q));
    x == y
}

pub fn col_matches(s: &ColSnap, m: &ColSpec) -> Option<String> {
    let mut d = Vec::new();
    if s.name != m.name {
        d.push(format!("name {:?} vs {:?}", s.name, m.name));
    }
    if s.ty != m.ty {
        d.push(format!("type {:?} vs {:?}", s.ty, m.ty));
    }
    if s.nullable != m.nullable {
        d.push(format!("nullable {} vs {}", s.nullable, m.nullable));
    }
    if s.key != m.key {
        d.push(format!("key {} vs {}", s.key, m.key));
    }
    if s.localizable != m.localizable {
        d.push(format!("localizable {} vs {}", s.localizable, m.localizable));
    }
    if s.range != m.range {
        d.push(format!("range {:?} vs {:?}", s.range, m.range));
    }
    if s.category != m.category {
        d.push(format!("category {:?} vs {:?}", s.category, m.category));
    }
    if s.enums != m.enums {
        d.push(format!("enum {:?} vs {:?}", s.enums, m.enums));
    }
    if d.is_empty() {
        None
    } else {
        Some(format!("column {:?}: got/expected {}", m.name, d.join("; ")))
    }
}

/// Invariants that need no model: unique keys, declared validity.
pub fn invariants(snap: &Snap, model: Option<&Model>) -> Vec<Diff> {
    let mut out = Vec::new();
    for (name, t) in snap.tables.iter() {
        if !t.api_problems.is_empty() {
            out.push(Diff { area: Area::Api, msg: format!("table {:?}: {}", name, t.api_problems[0]) });
        }
        if t.select_err.is_none() && t.reported_len != t.rows.len() {
            out.push(Diff {
                area: Area::Api,
                msg: format!("table {:?}: Rows::len() {} but {} rows yielded", name, t.reported_len, t.rows.len()),
            });
        }
        let mt = model.and_then(|m| m.tables.get(name));
        let check_order = mt.map(|t| t.ordered).unwrap_or(false);
        let foreign_dups_ok = mt.map(|t| !t.ordered).unwrap_or(true) && model.is_some();
        let idx = &t.key_idx;
        if !idx.is_empty() {
            let keys: Vec<Vec<Val>> = t
                .rows
                .iter()
                .map(|r| idx.iter().filter(|&&i| i < r.len()).map(|&i| r[i].clone()).collect())
                .collect();
            if !foreign_dups_ok || check_order {
                let mut sorted: Vec<&Vec<Val>> = keys.iter().collect();
                sorted.sort_by(|a, b| key_cmp(a, b));
                for w in sorted.windows(2) {
                    if w[0] == w[1] {
                        out.push(Diff {
                            area: Area::Unique,
                            msg: format!("table {:?} holds two rows with key {}", name, fmt_row(w[0])),
                        });
                        break;
                    }
                }
            }
            if check_order {
                for w in keys.windows(2) {
                    if key_cmp(&w[0], &w[1]) == std::cmp::Ordering::Greater {
                        out.push(Diff {
                            area: Area::Order,
                            msg: format!(
                                "table {:?}: key {} stored before {}",
                                name,
                                fmt_row(&w[0]),
                                fmt_row(&w[1])
                            ),
                        });
                        break;
                    }
                }
            }
        }
        // (the library's own category parser accepts two spellings that the enumeration it
        // declares for _Validation.Category does not list; other tools write them)
        let alt_spelling = |r: usize, c: usize| -> bool {
            name == "_Validation"
                && t.cols.get(c).map(|c| c.name == "Category").unwrap_or(false)
                && matches!(&t.rows[r][c], Val::Str(s) if s == "Guid" || s == "FormattedSddlText")
        };
        if let Some(&(r, c)) = t.invalid_cells.iter().find(|&&(r, c)| !alt_spelling(r, c)) {
            // foreign tables may legitimately hold anything; library-written
            // (model-known, plain) tables may not
            if mt.map(|t| t.plain || t.catalog).unwrap_or(false) {
                out.push(Diff {
                    area: Area::CellValid,
                    msg: format!(
                        "table {:?} row {} column {:?} holds {} which Column::is_valid_value rejects",
                        name,
                        r,
                        t.cols.get(c).map(|c| c.name.as_str()).unwrap_or("?"),
                        t.rows[r][c].short()
                    ),
                });
            }
        }
        if let Some(mt) = mt {
            if mt.plain {
                'outer: for (ri, r) in t.rows.iter().enumerate() {
                    for (ci, v) in r.iter().enumerate() {
                        if ci < mt.cols.len() && !stored_cell_valid(&mt.cols[ci], v) {
                            out.push(Diff {
                                area: Area::CellValid,
                                msg: format!(
                                    "table {:?} row {} column {:?} holds {} which its declaration does not allow",
                                    name, ri, mt.cols[ci].name, v.short()
                                ),
                            });
                            break 'outer;
                        }
                    }
                }
            }
        }
    }
    out
}

pub fn compare(snap: &Snap, m: &Model) -> Vec<Diff> {
    compare_skipping(snap, m, &[])
}

/// `unsettled`: streams whose content is being written through a live,
/// unflushed handle; what a reader sees of them meanwhile is unspecified.
pub fn compare_skipping(snap: &Snap, m: &Model, unsettled: &[(usize, String)]) -> Vec<Diff> {
    let mut out = Vec::new();
    if snap.ptype != m.ptype {
        out.push(Diff { area: Area::Meta, msg: format!("package type {:?}, expected {:?}", snap.ptype, m.ptype) });
    }
    if snap.db_cp != m.db_cp && !(m.db_cp == 0 && snap.db_cp == 65001) {
        out.push(Diff { area: Area::Meta, msg: format!("database code page {}, expected {}", snap.db_cp, m.db_cp) });
    }
    // tables
    for name in m.tables.keys() {
        if !snap.tables.contains_key(name) {
            out.push(Diff { area: Area::Tables, msg: format!("table {:?} missing", name) });
        }
    }
    for (name, ts) in snap.tables.iter() {
        let mt = match m.tables.get(name) {
            Some(t) => t,
            None => {
                out.push(Diff { area: Area::Tables, msg: format!("unexpected table {:?}", name) });
                continue;
            }
        };
        if !ts.has_table {
            out.push(Diff { area: Area::Tables, msg: format!("has_table({:?}) is false for a listed table", name) });
        }
        if ts.cols.len() != mt.cols.len() {
            out.push(Diff {
                area: Area::Schema,
                msg: format!("table {:?} has {} columns, expected {}", name, ts.cols.len(), mt.cols.len()),
            });
        } else {
            for (s, c) in ts.cols.iter().zip(mt.cols.iter()) {
                if let Some(d) = col_matches(s, c) {
                    out.push(Diff { area: Area::Schema, msg: format!("table {:?} {}", name, d) });
                    break;
                }
            }
            let exp_keys = mt.key_idx();
            if ts.key_idx != exp_keys {
                out.push(Diff {
                    area: Area::Schema,
                    msg: format!("table {:?} primary_key_indices {:?}, expected {:?}", name, ts.key_idx, exp_keys),
                });
            }
        }
        if let Some(e) = &ts.select_err {
            out.push(Diff { area: Area::Rows, msg: format!("select on table {:?} failed: {}", name, e) });
            continue;
        }
        let same = if mt.exact_seq { ts.rows == mt.rows } else { rows_eq_multiset(&ts.rows, &mt.rows) };
        if !same {
            let mut msg = format!("table {:?}: {} rows, expected {}", name, ts.rows.len(), mt.rows.len());
            for i in 0..ts.rows.len().max(mt.rows.len()) {
                let a = ts.rows.get(i);
                let b = mt.rows.get(i);
                if a != b {
                    msg.push_str(&format!(
                        "; first difference at row {}: got {} expected {}",
                        i,
                        a.map(|r| fmt_row(r)).unwrap_or("<none>".into()),
                        b.map(|r| fmt_row(r)).unwrap_or("<none>".into())
                    ));
                    break;
                }
            }
            out.push(Diff { area: Area::Rows, msg });
        }
        let exp_cols: Vec<&str> = mt.cols.iter().map(|c| c.name.as_str()).collect();
        if ts.rows_cols.iter().map(|s| s.as_str()).collect::<Vec<_>>() != exp_cols {
            out.push(Diff { area: Area::Api, msg: format!("table {:?}: Rows::columns() {:?}", name, ts.rows_cols) });
        }
    }
    // streams
    let mut listed_keys = Vec::new();
    for n in snap.stream_list.iter() {
        let key = crate::names::stream_key(n);
        if listed_keys.contains(&key) {
            out.push(Diff { area: Area::StreamList, msg: format!("stream {:?} listed twice", n) });
        }
        listed_keys.push(key.clone());
        match m.streams.get(&key) {
            None => out.push(Diff { area: Area::StreamList, msg: format!("unexpected stream {:?} in listing", n) }),
            Some(sm) => {
                if !sm.names.iter().any(|x| x == n) {
                    out.push(Diff {
                        area: Area::StreamList,
                        msg: format!("stream listed as {:?}, written as {:?}", n, sm.names),
                    });
                }
                match snap.streams.get(n) {
                    _ if unsettled.contains(&key) => {}
                    Some(Ok(data)) => {
                        if data != &sm.data {
                            let at = data.iter().zip(sm.data.iter()).position(|(a, b)| a != b);
                            out.push(Diff {
                                area: Area::StreamContent,
                                msg: format!(
                                    "stream {:?}: {} bytes read, {} expected, first difference at {:?}",
                                    n,
                                    data.len(),
                                    sm.data.len(),
                                    at
                                ),
                            });
                        }
                    }
                    Some(Err(e)) => out.push(Diff {
                        area: Area::StreamContent,
                        msg: format!("stream {:?} is listed but cannot be read: {}", n, e),
                    }),
                    None => {}
                }
            }
        }
    }
    for (key, sm) in m.streams.iter() {
        if !listed_keys.contains(key) {
            out.push(Diff { area: Area::StreamList, msg: format!("stream {:?} missing from listing", sm.names) });
        }
    }
    for n in snap.has_stream_false.iter() {
        out.push(Diff { area: Area::StreamList, msg: format!("has_stream({:?}) false for a listed stream", n) });
    }
    if snap.has_sig != m.sig {
        out.push(Diff { area: Area::Signature, msg: format!("has_digital_signature {} expected {}", snap.has_sig, m.sig) });
    }
    out.extend(compare_summary(&snap.summary, &m.summary));
    out
}

pub fn compare_summary(s: &SumSnap, m: &SummaryM) -> Vec<Diff> {
    let mut out = Vec::new();
    let names = ["title", "subject", "author", "comments", "creating_application"];
    for i in 0u8..5 {
        let got = s.strs.get(&i);
        let exp = m.strs.get(&i);
        let ok = match (got, exp) {
            (None, None) => true,
            (Some(g), Some(SStr::Exact(e))) => g == e,
            (Some(g), Some(SStr::Lossy(n))) => g.chars().count() == *n,
            _ => false,
        };
        if !ok {
            out.push(Diff {
                area: Area::Summary,
                msg: format!("summary {}: got {:?}, expected {:?}", names[i as usize], got, exp),
            });
        }
    }
    if s.uuid != m.uuid {
        out.push(Diff { area: Area::Summary, msg: format!("summary uuid: got {:?}, expected {:?}", s.uuid, m.uuid) });
    }
    if s.word_count != m.word_count {
        out.push(Diff {
            area: Area::Summary,
            msg: format!("summary word_count: got {:?}, expected {:?}", s.word_count, m.word_count),
        });
    }
    match (s.time, m.time) {
        (None, None) => {}
        (Some(g), Some(e)) => {
            let gn = g.0 as i128 * 1_000_000_000 + g.1 as i128;
            let en = e.0 as i128 * 1_000_000_000 + e.1 as i128;
            if (gn - en).abs() >= 100 {
                out.push(Diff {
                    area: Area::Summary,
                    msg: format!("summary creation_time: got {:?}, expected {:?} (100 ns resolution)", g, e),
                });
            }
        }
        (g, e) => out.push(Diff {
            area: Area::Summary,
            msg: format!("summary creation_time: got {:?}, expected {:?}", g, e),
        }),
    }
    let arch_ok = match (&s.arch, &m.arch) {
        (None, None) => true,
        (Some(g), Some(SStr::Exact(e))) => g == e,
        (Some(g), Some(SStr::Lossy(n))) => g.chars().count() == *n,
        _ => false,
    };
    if !arch_ok {
        out.push(Diff { area: Area::Summary, msg: format!("summary arch: got {:?}, expected {:?}", s.arch, m.arch) });
    }
    if s.langs != m.langs {
        out.push(Diff { area: Area::Summary, msg: format!("summary languages: got {:?}, expected {:?}", s.langs, m.langs) });
    }
    if s.codepage != m.codepage && !(m.codepage == 0 && s.codepage == 65001) {
        out.push(Diff {
            area: Area::Summary,
            msg: format!("summary code page: got {}, expected {}", s.codepage, m.codepage),
        });
    }
    out
}
