//! Independent codec for the MSI database format, written from the format
//! description.  The compound-file container is read/written with the `cfb`
//! crate; everything inside the streams is decoded here without msi.

use crate::names;
use crate::ops::PType;
use std::collections::BTreeMap;
use std::io::{Cursor, Read, Write};

pub const CLSID_INSTALLER: &str = "000c1084-0000-0000-c000-000000000046";
pub const CLSID_PATCH: &str = "000c1086-0000-0000-c000-000000000046";
pub const CLSID_TRANSFORM: &str = "000c1082-0000-0000-c000-000000000046";

pub fn clsid_of(p: PType) -> &'static str {
    match p {
        PType::Installer => CLSID_INSTALLER,
        PType::Patch => CLSID_PATCH,
        PType::Transform => CLSID_TRANSFORM,
    }
}

#[derive(Clone, Debug, PartialEq)]
pub struct PoolEntry {
    pub bytes: Vec<u8>,
    pub refcount: u32,
}

#[derive(Clone, Copy, Debug, PartialEq, Eq)]
pub enum Cell {
    Null,
    Int(i32),
    Ref(u32),
}

#[derive(Clone, Debug, Default)]
pub struct DecTable {
    /// (name, type word)
    pub cols: Vec<(String, i32)>,
    pub rows: Vec<Vec<Cell>>,
    pub stream_len: usize,
    pub has_stream: bool,
}

#[derive(Clone, Debug, Default)]
pub struct Decoded {
    pub clsid: String,
    pub ptype: Option<PType>,
    pub codepage: u32,
    pub long_refs: bool,
    pub pool: Vec<PoolEntry>,
    pub data_len: usize,
    pub data_used: usize,
    pub tables: BTreeMap<String, DecTable>,
    /// user streams by decoded name
    pub streams: BTreeMap<String, Vec<u8>>,
    /// raw names of all root entries
    pub entries: Vec<String>,
    pub storages: Vec<String>,
    pub summary: Option<Vec<u8>>,
    pub problems: Vec<(String, String)>,
}

fn rd16(b: &[u8], at: usize) -> Option<u16> {
    if at + 2 <= b.len() {
        Some(u16::from_le_bytes([b[at], b[at + 1]]))
    } else {
        None
    }
}

fn rd32(b: &[u8], at: usize) -> Option<u32> {
    if at + 4 <= b.len() {
        Some(u32::from_le_bytes([b[at], b[at + 1], b[at + 2], b[at + 3]]))
    } else {
        None
    }
}

pub fn read_all_streams(image: &[u8]) -> Result<(String, Vec<(String, bool, Vec<u8>)>), String> {
    let mut comp = cfb::CompoundFile::open(Cursor::new(image.to_vec())).map_err(|e| format!("container: {}", e))?;
    let clsid = comp.root_entry().clsid().hyphenated().to_string();
    let entries: Vec<(String, bool)> =
        comp.read_root_storage().map(|e| (e.name().to_string(), e.is_stream())).collect();
    let mut out = Vec::new();
    for (name, is_stream) in entries {
        if is_stream {
            let mut data = Vec::new();
            let mut path = std::path::PathBuf::from("/");
            path.push(&name);
            let mut s = comp.open_stream(&path).map_err(|e| format!("open {:?}: {}", name, e))?;
            s.read_to_end(&mut data).map_err(|e| format!("read {:?}: {}", name, e))?;
            out.push((name, true, data));
        } else {
            out.push((name, false, Vec::new()));
        }
    }
    Ok((clsid, out))
}

pub fn width_of(type_word: i32, long_refs: bool) -> Result<(usize, bool), String> {
    let size = type_word & 0xff;
    if type_word & 0x800 != 0 {
        Ok((if long_refs { 3 } else { 2 }, true))
    } else {
        match size {
            4 => Ok((4, false)),
            2 | 1 => Ok((2, false)),
            _ => Err(format!("integer column of width {}", size)),
        }
    }
}

fn parse_pool(pool: &[u8], data: &[u8], d: &mut Decoded) {
    let head = match rd32(pool, 0) {
        Some(h) => h,
        None => {
            d.problems.push(("C08.layout".into(), "string pool shorter than its header".into()));
            return;
        }
    };
    d.long_refs = head & 0x8000_0000 != 0;
    d.codepage = head & 0x7fff_ffff;
    if (pool.len() - 4) % 4 != 0 {
        d.problems.push(("C08.layout".into(), format!("string pool length {} is not 4+4n", pool.len())));
    }
    let mut at = 4;
    let mut off = 0usize;
    while at + 4 <= pool.len() {
        let mut len = rd16(pool, at).unwrap() as usize;
        let mut refs = rd16(pool, at + 2).unwrap() as u32;
        at += 4;
        if len == 0 && refs > 0 {
            // long-string escape: this entry carries the high word
            match (rd16(pool, at), rd16(pool, at + 2)) {
                (Some(lo), Some(r)) => {
                    len = ((refs as usize) << 16) | lo as usize;
                    refs = r as u32;
                    at += 4;
                }
                _ => {
                    d.problems.push(("C08.layout".into(), "long-string escape at end of pool".into()));
                    break;
                }
            }
        }
        if off + len > data.len() {
            d.problems.push((
                "C08.layout".into(),
                format!("pool entry {} needs {} bytes at {} but string data has {}", d.pool.len() + 1, len, off, data.len()),
            ));
            d.pool.push(PoolEntry { bytes: Vec::new(), refcount: refs });
            off = data.len();
            continue;
        }
        d.pool.push(PoolEntry { bytes: data[off..off + len].to_vec(), refcount: refs });
        off += len;
    }
    d.data_len = data.len();
    d.data_used = off;
}

fn parse_table(cols: &[(String, i32)], long_refs: bool, bytes: &[u8]) -> Result<Vec<Vec<Cell>>, String> {
    let mut widths = Vec::new();
    for (_, tw) in cols {
        widths.push(width_of(*tw, long_refs)?);
    }
    let row_w: usize = widths.iter().map(|w| w.0).sum();
    if row_w == 0 {
        return Err("table with no columns".into());
    }
    if bytes.len() % row_w != 0 {
        return Err(format!("stream of {} bytes is not a whole number of {}-byte rows", bytes.len(), row_w));
    }
    let n = bytes.len() / row_w;
    let mut rows = vec![Vec::with_capacity(cols.len()); n];
    let mut at = 0;
    for (w, is_str) in widths {
        for r in rows.iter_mut() {
            let cell = if is_str {
                let mut v = rd16(bytes, at).unwrap() as u32;
                if w == 3 {
                    v |= (bytes[at + 2] as u32) << 16;
                }
                if v == 0 {
                    Cell::Null
                } else {
                    Cell::Ref(v)
                }
            } else if w == 2 {
                let v = rd16(bytes, at).unwrap();
                if v == 0 {
                    Cell::Null
                } else {
                    Cell::Int((v ^ 0x8000) as i16 as i32)
                }
            } else {
                let v = rd32(bytes, at).unwrap();
                if v == 0 {
                    Cell::Null
                } else {
                    Cell::Int((v ^ 0x8000_0000) as i32)
                }
            };
            r.push(cell);
            at += w;
        }
    }
    Ok(rows)
}

impl Decoded {
    pub fn pool_text(&self, idx: u32) -> Option<String> {
        let e = self.pool.get(idx.checked_sub(1)? as usize)?;
        crate::cp::decode(self.codepage, &e.bytes)
    }
}

pub fn decode(image: &[u8]) -> Result<Decoded, String> {
    let (clsid, raw) = read_all_streams(image)?;
    let mut d = Decoded { clsid: clsid.clone(), ..Default::default() };
    d.ptype = match clsid.as_str() {
        CLSID_INSTALLER => Some(PType::Installer),
        CLSID_PATCH => Some(PType::Patch),
        CLSID_TRANSFORM => Some(PType::Transform),
        _ => None,
    };
    let mut table_streams: BTreeMap<String, Vec<u8>> = BTreeMap::new();
    for (name, is_stream, data) in raw {
        d.entries.push(name.clone());
        if !is_stream {
            d.storages.push(name);
            continue;
        }
        if name == names::SUMMARY {
            d.summary = Some(data);
        } else if name == names::DOCSUMMARY || name == names::SIG || name == names::SIG_EX {
        } else {
            let (dec, is_table) = names::unpack(&name);
            if is_table {
                if table_streams.insert(dec.clone(), data).is_some() {
                    d.problems.push(("C08.layout".into(), format!("two table streams decode to {:?}", dec)));
                }
            } else if d.streams.insert(dec.clone(), data).is_some() {
                d.problems.push(("C11.listing".into(), format!("two streams decode to {:?}", dec)));
            }
        }
    }
    let pool = table_streams.remove("_StringPool").ok_or("no _StringPool stream")?;
    let data = table_streams.remove("_StringData").ok_or("no _StringData stream")?;
    parse_pool(&pool, &data, &mut d);
    let s = |n: &str, tw: i32| (n.to_string(), tw);
    let tables_cols = vec![s("Name", 0x2d40)];
    let columns_cols = vec![s("Table", 0x2d40), s("Number", 0x2502), s("Name", 0x0d40), s("Type", 0x0502)];
    let tb = table_streams.remove("_Tables").unwrap_or_default();
    let cb = table_streams.remove("_Columns").unwrap_or_default();
    let trows = parse_table(&tables_cols, d.long_refs, &tb).map_err(|e| format!("_Tables: {}", e))?;
    let crows = parse_table(&columns_cols, d.long_refs, &cb).map_err(|e| format!("_Columns: {}", e))?;
    let text = |d: &Decoded, c: &Cell| -> Option<String> {
        match c {
            Cell::Ref(i) => d.pool_text(*i),
            _ => None,
        }
    };
    let mut names_list = Vec::new();
    for r in trows.iter() {
        match text(&d, &r[0]) {
            Some(n) => names_list.push(n),
            None => d.problems.push(("C08.catalog".into(), format!("_Tables row with unresolvable name {:?}", r[0]))),
        }
    }
    let mut colmap: BTreeMap<String, BTreeMap<i32, (String, i32)>> = BTreeMap::new();
    for r in crows.iter() {
        let t = text(&d, &r[0]);
        let n = text(&d, &r[2]);
        match (t, &r[1], n, &r[3]) {
            (Some(t), Cell::Int(num), Some(n), Cell::Int(tw)) => {
                if colmap.entry(t.clone()).or_default().insert(*num, (n, *tw)).is_some() {
                    d.problems.push(("C08.catalog".into(), format!("_Columns lists column {} of {:?} twice", num, t)));
                }
            }
            _ => d.problems.push(("C08.catalog".into(), format!("_Columns row with null/unresolvable cells {:?}", r))),
        }
    }
    for t in colmap.keys() {
        if !names_list.contains(t) {
            d.problems.push(("C08.catalog".into(), format!("_Columns mentions {:?} which _Tables does not list", t)));
        }
    }
    d.tables.insert(
        "_Tables".into(),
        DecTable { cols: tables_cols, rows: trows, stream_len: tb.len(), has_stream: true },
    );
    d.tables.insert(
        "_Columns".into(),
        DecTable { cols: columns_cols, rows: crows, stream_len: cb.len(), has_stream: true },
    );
    for t in names_list {
        let cols = match colmap.get(&t) {
            Some(c) => c,
            None => {
                d.problems.push(("C08.catalog".into(), format!("table {:?} has no columns in _Columns", t)));
                continue;
            }
        };
        let n = cols.len() as i32;
        if cols.keys().next() != Some(&1) || cols.keys().next_back() != Some(&n) {
            d.problems.push((
                "C08.catalog".into(),
                format!("columns of {:?} are numbered {:?}, not 1..{}", t, cols.keys().collect::<Vec<_>>(), n),
            ));
        }
        let cl: Vec<(String, i32)> = cols.values().cloned().collect();
        let (bytes, has) = match table_streams.remove(&t) {
            Some(b) => (b, true),
            None => (Vec::new(), false),
        };
        match parse_table(&cl, d.long_refs, &bytes) {
            Ok(rows) => {
                d.tables.insert(t.clone(), DecTable { cols: cl, rows, stream_len: bytes.len(), has_stream: has });
            }
            Err(e) => {
                d.problems.push(("C08.layout".into(), format!("table {:?}: {}", t, e)));
                d.tables.insert(t.clone(), DecTable { cols: cl, rows: Vec::new(), stream_len: bytes.len(), has_stream: has });
            }
        }
    }
    for (t, _) in table_streams {
        d.problems.push(("C08.catalog".into(), format!("table stream {:?} is not listed in _Tables", t)));
    }
    Ok(d)
}

// ------------------------------------------------------------ property sets

#[derive(Clone, Debug, PartialEq)]
pub enum PVal {
    Empty,
    Null,
    I1(i8),
    I2(i16),
    I4(i32),
    Str(Vec<u8>),
    Time(u64),
}

#[derive(Clone, Debug, Default)]
pub struct PropSet {
    pub version: u16,
    pub os: u16,
    pub os_version: u16,
    pub fmtid: [u8; 16],
    pub props: BTreeMap<u32, PVal>,
    pub order: Vec<u32>,
}

pub const FMTID_SUMMARY: [u8; 16] = *b"\xe0\x85\x9f\xf2\xf9\x4f\x68\x10\xab\x91\x08\x00\x2b\x27\xb3\xd9";

/// Strict parser: every structural rule of the property is checked.
pub fn parse_propset(b: &[u8], strict: bool) -> Result<PropSet, String> {
    let mut ps = PropSet::default();
    if rd16(b, 0) != Some(0xfffe) {
        return Err("bad byte-order mark".into());
    }
    ps.version = rd16(b, 2).ok_or("short header")?;
    if ps.version > 1 {
        return Err(format!("format version {}", ps.version));
    }
    ps.os_version = rd16(b, 4).ok_or("short header")?;
    ps.os = rd16(b, 6).ok_or("short header")?;
    if ps.os > 2 {
        return Err(format!("OS kind {}", ps.os));
    }
    if b.len() < 48 {
        return Err("header shorter than 48 bytes".into());
    }
    let nsect = rd32(b, 24).unwrap();
    if nsect < 1 {
        return Err("section count 0".into());
    }
    ps.fmtid.copy_from_slice(&b[28..44]);
    let so = rd32(b, 44).unwrap() as usize;
    if so < 48 || (strict && so % 4 != 0) {
        return Err(format!("section offset {}", so));
    }
    let size = rd32(b, so).ok_or("section header beyond stream")? as usize;
    let n = rd32(b, so + 4).ok_or("section header beyond stream")? as usize;
    if strict && so + size != b.len() {
        return Err(format!("section size {} at offset {} but stream has {} bytes", size, so, b.len()));
    }
    if 8 + 8 * n > size {
        return Err(format!("{} properties do not fit section size {}", n, size));
    }
    let mut spans: Vec<(usize, usize, u32)> = Vec::new();
    for i in 0..n {
        let id = rd32(b, so + 8 + 8 * i).unwrap();
        let off = rd32(b, so + 12 + 8 * i).unwrap() as usize;
        if ps.props.contains_key(&id) {
            return Err(format!("property {} listed twice", id));
        }
        if strict && off % 4 != 0 {
            return Err(format!("property {} at unaligned offset {}", id, off));
        }
        if off < 8 + 8 * n || off + 4 > size {
            return Err(format!("property {} offset {} outside the section (size {})", id, off, size));
        }
        let at = so + off;
        let ty = rd32(b, at).unwrap();
        let (val, len) = match ty {
            0 => (PVal::Empty, 4),
            1 => (PVal::Null, 4),
            2 => (PVal::I2(rd16(b, at + 4).ok_or("I2 beyond stream")? as i16), 8),
            3 => (PVal::I4(rd32(b, at + 4).ok_or("I4 beyond stream")? as i32), 8),
            16 => (PVal::I1(*b.get(at + 4).ok_or("I1 beyond stream")? as i8), 8),
            30 => {
                let l = rd32(b, at + 4).ok_or("LPSTR length beyond stream")? as usize;
                if l == 0 {
                    return Err(format!("property {}: LPSTR with length 0 (no terminator)", id));
                }
                if at + 8 + l > b.len() {
                    return Err(format!("property {}: LPSTR of {} bytes runs past the stream", id, l));
                }
                let s = &b[at + 8..at + 8 + l];
                if s[l - 1] != 0 {
                    return Err(format!("property {}: LPSTR not terminated", id));
                }
                (PVal::Str(s[..l - 1].to_vec()), 8 + ((l + 3) & !3))
            }
            64 => {
                let lo = rd32(b, at + 4).ok_or("FILETIME beyond stream")? as u64;
                let hi = rd32(b, at + 8).ok_or("FILETIME beyond stream")? as u64;
                (PVal::Time((hi << 32) | lo), 12)
            }
            t => return Err(format!("property {} has unknown type {}", id, t)),
        };
        if off + len > size {
            return Err(format!("property {} value ({} bytes at {}) runs past section size {}", id, len, off, size));
        }
        spans.push((off, off + len, id));
        ps.props.insert(id, val);
        ps.order.push(id);
    }
    if !strict {
        return Ok(ps);
    }
    spans.sort();
    let mut end = 8 + 8 * n;
    for (a, z, id) in spans.iter() {
        if *a < end {
            return Err(format!("property {} overlaps the previous value", id));
        }
        if *a > end {
            return Err(format!("gap of {} bytes before property {}", a - end, id));
        }
        end = *z;
    }
    if end != size {
        return Err(format!("values end at {} but section size is {}", end, size));
    }
    Ok(ps)
}

// ------------------------------------------------------------ encoding helpers (foreign writer)

pub fn enc_i16(v: Option<i32>) -> [u8; 2] {
    match v {
        None => [0, 0],
        Some(n) => (((n as i16) as u16) ^ 0x8000).to_le_bytes(),
    }
}

pub fn enc_i32(v: Option<i32>) -> [u8; 4] {
    match v {
        None => [0; 4],
        Some(n) => ((n as u32) ^ 0x8000_0000).to_le_bytes(),
    }
}

pub fn write_propset(
    version: u16,
    os: u16,
    os_version: u16,
    fmtid: &[u8; 16],
    props: &[(u32, PVal)],
    value_order: &[usize],
    section_offset: usize,
    gaps: bool,
) -> Vec<u8> {
    // values laid out in `value_order`, the id/offset list in `props` order
    let n = props.len();
    let mut sizes = Vec::new();
    for (_, v) in props {
        sizes.push(match v {
            PVal::Empty | PVal::Null => 4,
            PVal::I1(_) | PVal::I2(_) | PVal::I4(_) => 8,
            PVal::Str(s) => 8 + ((s.len() + 1 + 3) & !3),
            PVal::Time(_) => 12,
        });
    }
    let mut offs = vec![0usize; n];
    let mut at = 8 + 8 * n;
    for &i in value_order {
        if gaps {
            at += 4;
        }
        offs[i] = at;
        at += sizes[i];
    }
    let size = at;
    let mut out = Vec::new();
    out.extend_from_slice(&0xfffeu16.to_le_bytes());
    out.extend_from_slice(&version.to_le_bytes());
    out.extend_from_slice(&os_version.to_le_bytes());
    out.extend_from_slice(&os.to_le_bytes());
    out.extend_from_slice(&[0u8; 16]);
    out.extend_from_slice(&1u32.to_le_bytes());
    out.extend_from_slice(fmtid);
    out.extend_from_slice(&(section_offset as u32).to_le_bytes());
    while out.len() < section_offset {
        out.push(0);
    }
    let mut sec = vec![0u8; size];
    sec[0..4].copy_from_slice(&(size as u32).to_le_bytes());
    sec[4..8].copy_from_slice(&(n as u32).to_le_bytes());
    for (i, (id, v)) in props.iter().enumerate() {
        sec[8 + 8 * i..12 + 8 * i].copy_from_slice(&id.to_le_bytes());
        sec[12 + 8 * i..16 + 8 * i].copy_from_slice(&(offs[i] as u32).to_le_bytes());
        let o = offs[i];
        match v {
            PVal::Empty => sec[o..o + 4].copy_from_slice(&0u32.to_le_bytes()),
            PVal::Null => sec[o..o + 4].copy_from_slice(&1u32.to_le_bytes()),
            PVal::I1(x) => {
                sec[o..o + 4].copy_from_slice(&16u32.to_le_bytes());
                sec[o + 4] = *x as u8;
            }
            PVal::I2(x) => {
                sec[o..o + 4].copy_from_slice(&2u32.to_le_bytes());
                sec[o + 4..o + 6].copy_from_slice(&x.to_le_bytes());
            }
            PVal::I4(x) => {
                sec[o..o + 4].copy_from_slice(&3u32.to_le_bytes());
                sec[o + 4..o + 8].copy_from_slice(&x.to_le_bytes());
            }
            PVal::Str(s) => {
                sec[o..o + 4].copy_from_slice(&30u32.to_le_bytes());
                sec[o + 4..o + 8].copy_from_slice(&((s.len() + 1) as u32).to_le_bytes());
                sec[o + 8..o + 8 + s.len()].copy_from_slice(s);
            }
            PVal::Time(t) => {
                sec[o..o + 4].copy_from_slice(&64u32.to_le_bytes());
                sec[o + 4..o + 12].copy_from_slice(&t.to_le_bytes());
            }
        }
    }
    out.extend_from_slice(&sec);
    out
}

pub struct RawStream {
    pub name: String,
    pub data: Vec<u8>,
}

/// Builds a compound file with the given root class id and raw streams.
pub fn build_container(clsid: &str, streams: &[RawStream]) -> Result<Vec<u8>, String> {
    let mut comp = cfb::CompoundFile::create(Cursor::new(Vec::new())).map_err(|e| e.to_string())?;
    comp.set_storage_clsid("/", uuid::Uuid::parse_str(clsid).map_err(|e| e.to_string())?)
        .map_err(|e| e.to_string())?;
    for s in streams {
        let mut path = std::path::PathBuf::from("/");
        path.push(&s.name);
        let mut st = comp.create_stream(&path).map_err(|e| format!("create {:?}: {}", s.name, e))?;
        st.write_all(&s.data).map_err(|e| e.to_string())?;
        st.flush().map_err(|e| e.to_string())?;
    }
    comp.flush().map_err(|e| e.to_string())?;
    Ok(comp.into_inner().into_inner())
}
