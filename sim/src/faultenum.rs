//! C15: fault enumeration.  For each seeded script, one run per medium event
//! index of every kind (read, write, seek, flush), transient and persistent,
//! plus seeded pairs of transient faults and disk-full thresholds.

use crate::disk::{EvKind, FaultSpec};
use crate::gen::{self, Profile};
use crate::ops::*;
use crate::prng::{mix, Prng};
use crate::runner::*;
use std::collections::BTreeMap;
use std::sync::atomic::{AtomicU64, Ordering};
use std::sync::Mutex;
use std::time::Instant;

const KINDS: [EvKind; 4] = [EvKind::Read, EvKind::Write, EvKind::Seek, EvKind::Flush];

pub fn script(seed: u64, idx: u64) -> Trace {
    let mut t = gen::generate("C15", Profile::Script, seed, idx);
    // scripts observe rarely: the oracle of interest is at flush / hand-back
    t.knobs.observe_pct = if idx % 3 == 0 { 30 } else { 0 };
    t.knobs.disk.write_back = idx % 2 == 1;
    if idx % 4 == 3 {
        // a session whose only changes go around the deferred-save machinery:
        // stream writes and removals, then flush (and a crash right after it)
        t.knobs.disk.write_back = true;
        let mut id = t.ops.iter().map(|o| o.id).max().unwrap_or(0) + 1;
        let mut push = |t: &mut Trace, op: Op| {
            t.ops.push(OpRec { id, op });
            id += 1;
        };
        // (one write call that crosses the container's 8 KiB stream buffer)
        push(&mut t, Op::WriteStream { name: "Tail.bin".into(), dseed: 777, steps: vec![WStep::Write(12000), WStep::Flush] });
        push(&mut t, Op::Restart { mode: CloseMode::IntoInner, edits: Vec::new() });
        if idx % 8 == 3 {
            push(&mut t, Op::RemoveStream { name: "Tail.bin".into() });
        } else {
            push(&mut t, Op::WriteStream { name: "Tail2.bin".into(), dseed: 778, steps: vec![WStep::Write(300), WStep::Seek(10), WStep::Write(5), WStep::Flush] });
        }
        push(&mut t, Op::Flush);
        push(&mut t, Op::Restart { mode: CloseMode::FlushCrash, edits: Vec::new() });
        if idx % 8 == 7 {
            // a save window whose only pool change is a new string in a freed slot
            let cols = vec![ColSpec::new("K", CType::I16).key(), ColSpec::new("S", CType::Str(0)).nullable()];
            push(&mut t, Op::CreateTable { name: "Tq".into(), cols });
            push(&mut t, Op::Insert { table: "Tq".into(), rows: vec![vec![Val::Int(1), Val::Str("Q9001Q".into())], vec![Val::Int(2), Val::Str("Q9002Q".into())]] });
            push(&mut t, Op::Flush);
            push(&mut t, Op::Delete { table: "Tq".into(), cond: Some(Cond::Cmp("K".into(), CmpOp::Eq, Val::Int(1))) });
            push(&mut t, Op::Flush);
            push(&mut t, Op::Insert { table: "Tq".into(), rows: vec![vec![Val::Int(3), Val::Str("Q9003Q".into())]] });
            push(&mut t, Op::Flush);
            push(&mut t, Op::Restart { mode: CloseMode::FlushCrash, edits: Vec::new() });
        }
    }
    if idx % 8 == 4 {
        // a table dropped and created again under the same name within one session:
        // whatever the old stream held must not come back
        let mut id = t.ops.iter().map(|o| o.id).max().unwrap_or(0) + 1;
        let mut push = |t: &mut Trace, op: Op| {
            t.ops.push(OpRec { id, op });
            id += 1;
        };
        let cols = || vec![ColSpec::new("K", CType::I16).key(), ColSpec::new("S", CType::Str(0)).nullable()];
        push(&mut t, Op::CreateTable { name: "Re".into(), cols: cols() });
        push(&mut t, Op::Insert { table: "Re".into(), rows: (1..=5).map(|i| vec![Val::Int(i), Val::Str(format!("Q92{}Q", i))]).collect() });
        push(&mut t, Op::Restart { mode: CloseMode::IntoInner, edits: Vec::new() });
        push(&mut t, Op::DropTable { name: "Re".into() });
        push(&mut t, Op::CreateTable { name: "Re".into(), cols: cols() });
        push(&mut t, Op::Insert { table: "Re".into(), rows: vec![vec![Val::Int(2), Val::Str("Q9299Q".into())]] });
        push(&mut t, Op::Flush);
        push(&mut t, Op::Restart { mode: CloseMode::IntoInner, edits: Vec::new() });
    }
    if idx % 4 == 2 {
        // a summary stream longer than the container's 8 KiB stream buffer: loading it
        // at open needs a refill read; then a table change *before* a summary edit in
        // one save window, and the other way round
        let mut id = t.ops.iter().map(|o| o.id).max().unwrap_or(0) + 1;
        let mut push = |t: &mut Trace, op: Op| {
            t.ops.push(OpRec { id, op });
            id += 1;
        };
        let long: String = (0..9000 + (idx as usize % 7) * 13).map(|i| (b'a' + (i % 23) as u8) as char).collect();
        push(&mut t, Op::Summary(SumOp::SetStr(SumField::Subject, long)));
        push(&mut t, Op::Summary(SumOp::SetStr(SumField::Author, "Q9100Q first".into())));
        push(&mut t, Op::Restart { mode: CloseMode::IntoInner, edits: Vec::new() });
        let cols = vec![ColSpec::new("K", CType::I16).key(), ColSpec::new("V", CType::I16).nullable()];
        push(&mut t, Op::CreateTable { name: "Ts".into(), cols });
        push(&mut t, Op::Flush);
        push(&mut t, Op::Insert { table: "Ts".into(), rows: vec![vec![Val::Int(1), Val::Int(2)]] });
        push(&mut t, Op::Summary(SumOp::SetStr(SumField::Author, "Q9101Q second".into())));
        push(&mut t, Op::Flush);
        push(&mut t, Op::Restart { mode: CloseMode::FlushCrash, edits: Vec::new() });
        push(&mut t, Op::Summary(SumOp::SetStr(SumField::Title, "Q9102Q".into())));
        push(&mut t, Op::Insert { table: "Ts".into(), rows: vec![vec![Val::Int(2), Val::Null]] });
        push(&mut t, Op::Restart { mode: CloseMode::IntoInner, edits: Vec::new() });
    }
    if idx % 4 == 1 {
        // a table stream larger than the container's 8 KiB stream buffer (and than a
        // std BufWriter): the save pushes out full buffers before its final flush
        let mut id = t.ops.iter().map(|o| o.id).max().unwrap_or(0) + 1;
        let mut push = |t: &mut Trace, op: Op| {
            t.ops.push(OpRec { id, op });
            id += 1;
        };
        let cols = vec![ColSpec::new("K", CType::I32).key(), ColSpec::new("V", CType::I32).nullable()];
        push(&mut t, Op::CreateTable { name: "Big".into(), cols });
        let n1 = if idx % 8 == 1 { 700 } else { 1300 };
        push(&mut t, Op::Insert { table: "Big".into(), rows: (0..n1).map(|i| vec![Val::Int(i * 3), Val::Int(i)]).collect() });
        push(&mut t, Op::Flush);
        push(&mut t, Op::Restart { mode: CloseMode::IntoInner, edits: Vec::new() });
        push(&mut t, Op::Insert { table: "Big".into(), rows: (0..900).map(|i| vec![Val::Int(i * 3 + 1), Val::Int(-i)]).collect() });
        push(&mut t, Op::Flush);
        push(&mut t, Op::Update { table: "Big".into(), sets: vec![("V".into(), Val::Int(7))], cond: Some(Cond::Cmp("K".into(), CmpOp::Lt, Val::Int(600))) });
        push(&mut t, Op::Restart { mode: CloseMode::IntoInner, edits: Vec::new() });
    }
    t
}

struct Tally {
    agg: Agg,
    positions: u64,
    fired: u64,
    reported_err: u64,
    found: Vec<Found>,
    scripts: u64,
    sample: Vec<String>,
}

/// All single-fault plans for a script, given its fault-free event counts.
fn plans(base: &crate::exec::RunStats, seed: u64, idx: u64, thorough: bool) -> Vec<(Vec<FaultSpec>, Option<u64>)> {
    let mut out = Vec::new();
    let mut rng = Prng::new(mix(&[seed, idx, 0xfa17]));
    for (op_id, counts) in base.op_events.iter() {
        for k in KINDS.iter() {
            let n = counts[k.idx()];
            // Package::create alone issues thousands of tiny writes: sample it
            // (reads of the initial open are all enumerated: a fault there ends the run early)
            let stride = if *op_id == 0 && n > 400 && *k != EvKind::Read { (n / if thorough { 400 } else { 120 }).max(1) } else { 1 };
            let mut nth = if stride > 1 { rng.below(stride as u64) as u32 } else { 0 };
            while nth < n {
                for persistent in [false, true] {
                    out.push((vec![FaultSpec { op_id: *op_id, kind: *k, nth, persistent }], None));
                }
                nth += stride;
            }
        }
    }
    // pairs of transient faults
    let all: Vec<(u32, EvKind, u32)> = base
        .op_events
        .iter()
        .filter(|(id, _)| *id != 0)
        .flat_map(|(id, c)| KINDS.iter().flat_map(move |k| (0..c[k.idx()]).map(move |n| (*id, *k, n))))
        .collect();
    if all.len() >= 2 {
        for _ in 0..(if thorough { 60 } else { 20 }) {
            let a = all[rng.usize_below(all.len())];
            let b = all[rng.usize_below(all.len())];
            out.push((
                vec![
                    FaultSpec { op_id: a.0, kind: a.1, nth: a.2, persistent: false },
                    FaultSpec { op_id: b.0, kind: b.1, nth: b.2, persistent: false },
                ],
                None,
            ));
        }
    }
    // disk-full thresholds
    let len = base.final_len.max(1024);
    for f in [300u64, 600, 800, 900, 950, 990, 999] {
        out.push((Vec::new(), Some(len * f / 1000)));
    }
    out.push((Vec::new(), Some(len - 1)));
    out.push((Vec::new(), Some(len.saturating_sub(512))));
    out
}

pub fn check(tier: &str, seed: u64) -> i32 {
    let thorough = tier == "thorough";
    let scale: f64 = std::env::var("VERIF_SCALE").ok().and_then(|s| s.parse().ok()).unwrap_or(1.0);
    let nscripts = (((if thorough { 200 } else { 8 }) as f64) * scale).max(1.0) as u64;
    let t0 = Instant::now();
    let known = load_known();
    let tally = Mutex::new(Tally {
        agg: Agg::default(),
        positions: 0,
        fired: 0,
        reported_err: 0,
        found: Vec::new(),
        scripts: 0,
        sample: Vec::new(),
    });
    // scripts are handled in groups, so that the plan list stays small
    const GROUP: u64 = 8;
    let mut plan_offset = 0u64;
    for group_start in (0..nscripts).step_by(GROUP as usize) {
    let group_end = (group_start + GROUP).min(nscripts);
    // phase 1: fault-free runs of every script, and their fault plans
    let next = AtomicU64::new(group_start);
    let work: Mutex<Vec<(u64, Vec<FaultSpec>, Option<u64>)>> = Mutex::new(Vec::new());
    let bases: Mutex<BTreeMap<u64, Trace>> = Mutex::new(BTreeMap::new());
    std::thread::scope(|s| {
        for _ in 0..threads() {
            s.spawn(|| loop {
                let idx = next.fetch_add(1, Ordering::Relaxed);
                if idx >= group_end {
                    break;
                }
                let attempt = std::panic::catch_unwind(std::panic::AssertUnwindSafe(|| {
                    let base_trace = script(seed, idx);
                    let base = run_one(&base_trace);
                    let bad: Vec<Found> = base
                        .violations
                        .iter()
                        .filter(|v| v.property() == "C15")
                        .map(|v| Found { trace: base_trace.clone(), violation: v.clone() })
                        .collect();
                    let pl = if base.violations.is_empty() { plans(&base.stats, seed, idx, thorough) } else { Vec::new() };
                    (base_trace, bad, pl)
                }));
                match attempt {
                    Ok((bt, bad, pl)) => {
                        {
                            let mut t = tally.lock().unwrap();
                            t.scripts += 1;
                            if t.sample.len() < 3 {
                                t.sample.push(bt.brief());
                            }
                            t.found.extend(bad);
                        }
                        bases.lock().unwrap().insert(idx, bt);
                        let mut w = work.lock().unwrap();
                        for (f, c) in pl {
                            w.push((idx, f, c));
                        }
                    }
                    Err(_) => {
                        eprintln!("harness error: simulator panicked in script {} (seed {})", idx, seed);
                        HARNESS_ERRORS.fetch_add(1, Ordering::Relaxed);
                    }
                }
            });
        }
    });
    let mut work = work.into_inner().unwrap();
    let bases = bases.into_inner().unwrap();
    let bases = &bases;
    work.sort_by(|a, b| (a.0, &a.1.len(), a.1.first().map(|f| (f.op_id, f.kind.idx(), f.nth, f.persistent)), a.2)
        .cmp(&(b.0, &b.1.len(), b.1.first().map(|f| (f.op_id, f.kind.idx(), f.nth, f.persistent)), b.2)));
    // phase 2: one run per fault plan
    let next = AtomicU64::new(0);
    let work = &work;
    std::thread::scope(|s| {
        for _ in 0..threads() {
            s.spawn(|| {
                let mut local = Agg::default();
                let mut found: Vec<Found> = Vec::new();
                let (mut positions, mut fired, mut reported) = (0u64, 0u64, 0u64);
                loop {
                    let i = next.fetch_add(1, Ordering::Relaxed) as usize;
                    if i >= work.len() {
                        break;
                    }
                    let (sidx, faults, cap) = &work[i];
                    let bt = &bases[sidx];
                    let attempt = std::panic::catch_unwind(std::panic::AssertUnwindSafe(|| {
                        let mut t = bt.clone();
                        t.faults = faults.clone();
                        t.knobs.disk.capacity = *cap;
                        let r = run_one(&t);
                        (t, r)
                    }));
                    let (t, r) = match attempt {
                        Ok(x) => x,
                        Err(_) => {
                            eprintln!("harness error: simulator panicked in fault plan {} (seed {})", i, seed);
                            HARNESS_ERRORS.fetch_add(1, Ordering::Relaxed);
                            continue;
                        }
                    };
                    positions += 1;
                    let st = &r.stats.disk;
                    let hard: u64 =
                        st.hard_transient.iter().sum::<u64>() + st.hard_persistent.iter().sum::<u64>() + st.storage_full;
                    if hard > 0 {
                        fired += 1;
                    }
                    if r.stats.probes.contains_key("fault_reported_as_error") {
                        reported += 1;
                    }
                    local_absorb(&mut local, &t, &r.stats, plan_offset + i as u64);
                    if let Some(v) = r.violations.iter().find(|v| v.property() == "C15") {
                        if found.len() < 8 {
                            found.push(Found { trace: t.clone(), violation: v.clone() });
                        }
                    }
                }
                let mut t = tally.lock().unwrap();
                merge(&mut t.agg, local);
                t.positions += positions;
                t.fired += fired;
                t.reported_err += reported;
                for f in found {
                    if t.found.len() < 128 {
                        t.found.push(f);
                    }
                }
            });
        }
    });
    plan_offset += work.len() as u64;
    }
    let mut t = tally.into_inner().unwrap();
    t.found.sort_by_key(|f| (f.trace.run, f.trace.faults.first().map(|x| (x.op_id, x.nth)).unwrap_or((0, 0))));
    let mut violations = 0usize;
    let mut reported: Vec<String> = Vec::new();
    let mut known_hits: Vec<String> = Vec::new();
    for f in t.found.iter() {
        let sig0 = f.violation.signature();
        if reported.contains(&sig0) {
            continue;
        }
        let (mt, mv, _) = minimise(f, 300);
        if let Some(k) = known.matches(&mv).or_else(|| known.matches(&f.violation)) {
            let line = format!("KNOWN-FINDING: property=C15 {} [{}]", k.2, k.1);
            if !known_hits.contains(&line) {
                println!("{}", line);
                known_hits.push(line);
            }
            continue;
        }
        reported.push(sig0);
        let path = write_replay("C15", &mt, &mv);
        violations += 1;
        println!("violation: check={} site={} ops={} faults={:?} message={}", mv.check, mv.site, mt.ops.len(), mt.faults, mv.message);
        println!("VIOLATION property=C15 replay={}", path.display());
    }
    report_known(&known, "C15", &mut known_hits);
    let wall = t0.elapsed().as_secs_f64();
    let mut extra = BTreeMap::new();
    extra.insert("scripts".to_string(), serde_json::json!(t.scripts));
    extra.insert("fault_plans_executed".to_string(), serde_json::json!(t.positions));
    extra.insert("plans_in_which_a_fault_fired".to_string(), serde_json::json!(t.fired));
    extra.insert("plans_in_which_a_call_reported_the_fault".to_string(), serde_json::json!(t.reported_err));
    extra.insert(
        "enumeration".to_string(),
        serde_json::json!("per script: every event index of kinds read/write/seek/flush in every operation after Package::create (create itself sampled with a stride), transient and persistent; plus seeded pairs of transient faults and disk-full thresholds"),
    );
    let mut agg = t.agg;
    agg.samples = t.sample.clone();
    // distinct non-trivial = fault plans in which the fault actually fired
    let fired = t.fired;
    let rep = CheckReport {
        property: "C15".into(),
        tier: tier.into(),
        seed,
        level: "fault_enumeration".into(),
        agg,
        wall_s: wall,
        violations,
        known_hits,
        rule: "one case = (seeded script of 3-10 valid operations) x (one fault plan: a single fault at one event index of one kind in one operation, transient or persistent; or a pair; or a disk-full threshold). Every plan is distinct by construction; non-trivial = the planned fault actually fired. distinct_nontrivial counts those plans.".into(),
        assumptions: vec![
            "a buffered StreamWriter dropped without flush() loses errors by std::io::Write convention; scripts flush stream writers explicitly".into(),
            "after a call has reported an injected fault nothing but 'no panic' is required for the rest of the session".into(),
            "cfb 0.10.0 is trusted as container reader for the verification reopen".into(),
        ],
        per_profile: vec![("script".into(), t.positions)],
        extra,
    };
    write_evidence_with_distinct(&rep, fired);
    println!(
        "scripts={} fault_plans={} fired={} reported_as_error={} wall={:.1}s violations={}",
        t.scripts, t.positions, t.fired, t.reported_err, wall, violations
    );
    if HARNESS_ERRORS.load(Ordering::Relaxed) > 0 {
        return 2;
    }
    if violations > 0 {
        1
    } else {
        0
    }
}
