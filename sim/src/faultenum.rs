//! C15 (placeholder until the enumerator is written).
pub fn check(_tier: &str, _seed: u64) -> i32 {
    eprintln!("C15 not implemented yet");
    2
}
