//! The trace: explicit operations, generated from the model alone and then
//! executed against the implementation.  A trace file is the replay file.

use crate::disk::{DiskCfg, FaultSpec};
use serde::{Deserialize, Deserializer, Serialize, Serializer};
use std::cmp::Ordering;

// ---------------------------------------------------------------- values

#[derive(Clone, Debug, PartialEq, Eq, Hash)]
pub enum Val {
    Null,
    Int(i32),
    Str(String),
}

#[derive(Serialize, Deserialize)]
enum ValRepr {
    N,
    I(i32),
    S(String),
    /// long generated string: (serial, length in chars)
    L(u32, u32),
}

pub fn long_string(serial: u32, len: u32) -> String {
    let mut s = format!("Q{}Q", serial);
    const FILL: &[u8] = b"abcdefghijklmnoprstuvwxyz ";
    let mut i = 0usize;
    while s.len() < len as usize {
        s.push(FILL[(i + serial as usize) % FILL.len()] as char);
        i += 1;
    }
    s
}

fn parse_long(s: &str) -> Option<(u32, u32)> {
    let rest = s.strip_prefix('Q')?;
    let end = rest.find('Q')?;
    let serial: u32 = rest[..end].parse().ok()?;
    let len = s.len() as u32;
    if long_string(serial, len) == s {
        Some((serial, len))
    } else {
        None
    }
}

impl Serialize for Val {
    fn serialize<S: Serializer>(&self, ser: S) -> Result<S::Ok, S::Error> {
        let r = match self {
            Val::Null => ValRepr::N,
            Val::Int(i) => ValRepr::I(*i),
            Val::Str(s) => {
                if s.len() > 512 {
                    match parse_long(s) {
                        Some((a, b)) => ValRepr::L(a, b),
                        None => ValRepr::S(s.clone()),
                    }
                } else {
                    ValRepr::S(s.clone())
                }
            }
        };
        r.serialize(ser)
    }
}

impl<'de> Deserialize<'de> for Val {
    fn deserialize<D: Deserializer<'de>>(de: D) -> Result<Val, D::Error> {
        Ok(match ValRepr::deserialize(de)? {
            ValRepr::N => Val::Null,
            ValRepr::I(i) => Val::Int(i),
            ValRepr::S(s) => Val::Str(s),
            ValRepr::L(a, b) => Val::Str(long_string(a, b)),
        })
    }
}

impl Val {
    pub fn rank(&self) -> u8 {
        match self {
            Val::Null => 0,
            Val::Int(_) => 1,
            Val::Str(_) => 2,
        }
    }
    /// The file format has one value for "" and null.
    pub fn norm(self) -> Val {
        match self {
            Val::Str(s) if s.is_empty() => Val::Null,
            v => v,
        }
    }
    pub fn truthy(&self) -> bool {
        match self {
            Val::Null => false,
            Val::Int(i) => *i != 0,
            Val::Str(s) => !s.is_empty(),
        }
    }
    pub fn short(&self) -> String {
        match self {
            Val::Null => "NULL".into(),
            Val::Int(i) => i.to_string(),
            Val::Str(s) => {
                if s.chars().count() > 40 {
                    let head: String = s.chars().take(24).collect();
                    format!("{:?}..(len {})", head, s.chars().count())
                } else {
                    format!("{:?}", s)
                }
            }
        }
    }
}

/// Null < Int (numeric) < Str (byte-wise).  Written here, not borrowed from
/// msi::Value's derived Ord.
pub fn val_cmp(a: &Val, b: &Val) -> Ordering {
    match (a, b) {
        (Val::Int(x), Val::Int(y)) => x.cmp(y),
        (Val::Str(x), Val::Str(y)) => x.as_bytes().cmp(y.as_bytes()),
        _ => a.rank().cmp(&b.rank()),
    }
}

pub fn key_cmp(a: &[Val], b: &[Val]) -> Ordering {
    for (x, y) in a.iter().zip(b.iter()) {
        let c = val_cmp(x, y);
        if c != Ordering::Equal {
            return c;
        }
    }
    a.len().cmp(&b.len())
}

// ---------------------------------------------------------------- schema

#[derive(Clone, Copy, Debug, PartialEq, Eq, Hash, Serialize, Deserialize)]
pub enum CType {
    I16,
    I32,
    Str(u32),
}

#[derive(Clone, Debug, PartialEq, Eq, Hash, Serialize, Deserialize)]
pub struct ColSpec {
    pub name: String,
    pub ty: CType,
    #[serde(default, skip_serializing_if = "is_false")]
    pub nullable: bool,
    #[serde(default, skip_serializing_if = "is_false")]
    pub key: bool,
    #[serde(default, skip_serializing_if = "is_false")]
    pub localizable: bool,
    #[serde(default, skip_serializing_if = "Option::is_none")]
    pub range: Option<(i32, i32)>,
    #[serde(default, skip_serializing_if = "Option::is_none")]
    pub fk: Option<(String, i32)>,
    #[serde(default, skip_serializing_if = "Option::is_none")]
    pub category: Option<String>,
    #[serde(default, skip_serializing_if = "Vec::is_empty")]
    pub enums: Vec<String>,
}

fn is_false(b: &bool) -> bool {
    !*b
}

impl ColSpec {
    pub fn new(name: &str, ty: CType) -> ColSpec {
        ColSpec {
            name: name.to_string(),
            ty,
            nullable: false,
            key: false,
            localizable: false,
            range: None,
            fk: None,
            category: None,
            enums: Vec::new(),
        }
    }
    pub fn key(mut self) -> ColSpec {
        self.key = true;
        self
    }
    pub fn nullable(mut self) -> ColSpec {
        self.nullable = true;
        self
    }
    pub fn cat(mut self, c: &str) -> ColSpec {
        self.category = Some(c.to_string());
        self
    }
    pub fn range(mut self, a: i32, b: i32) -> ColSpec {
        self.range = Some((a, b));
        self
    }
    pub fn enums(mut self, e: &[&str]) -> ColSpec {
        self.enums = e.iter().map(|s| s.to_string()).collect();
        self
    }
    pub fn is_str(&self) -> bool {
        matches!(self.ty, CType::Str(_))
    }
}

// ---------------------------------------------------------------- conditions

#[derive(Clone, Copy, Debug, PartialEq, Eq, Hash, Serialize, Deserialize)]
pub enum CmpOp {
    Eq,
    Ne,
    Lt,
    Le,
    Gt,
    Ge,
}

/// Arithmetic and bitwise operators of the query language (one column operand, one literal).
#[derive(Clone, Copy, Debug, PartialEq, Eq, Hash, Serialize, Deserialize)]
pub enum AOp {
    Add,
    Sub,
    Mul,
    Div,
    And,
    Or,
    Xor,
    Shl,
    Shr,
    Neg,
    Inv,
}

/// The documented result: two's-complement arithmetic on two integers,
/// concatenation for string + string, null for operands of the wrong type,
/// for a null operand and for division by zero.  (The generator keeps integer
/// operands where nothing overflows and shift counts inside 0..31.)
pub fn arith(cell: &Val, op: AOp, lit: &Val) -> Val {
    match op {
        AOp::Neg => match cell {
            Val::Int(a) => Val::Int(a.wrapping_neg()),
            _ => Val::Null,
        },
        AOp::Inv => match cell {
            Val::Int(a) => Val::Int(!*a),
            _ => Val::Null,
        },
        AOp::Add => match (cell, lit) {
            (Val::Int(a), Val::Int(b)) => Val::Int(a.wrapping_add(*b)),
            (Val::Str(a), Val::Str(b)) => Val::Str(format!("{}{}", a, b)),
            _ => Val::Null,
        },
        AOp::Div => match (cell, lit) {
            (_, Val::Int(0)) => Val::Null,
            (Val::Int(a), Val::Int(b)) => {
                // truncating division, written out
                let q = (*a as i64).abs() / (*b as i64).abs();
                Val::Int(if (*a < 0) != (*b < 0) { -q } else { q } as i32)
            }
            _ => Val::Null,
        },
        _ => match (cell, lit) {
            (Val::Int(a), Val::Int(b)) => Val::Int(match op {
                AOp::Sub => a.wrapping_sub(*b),
                AOp::Mul => a.wrapping_mul(*b),
                AOp::And => a & b,
                AOp::Or => a | b,
                AOp::Xor => a ^ b,
                AOp::Shl => ((*a as u32) << (*b as u32 & 31)) as i32,
                AOp::Shr => {
                    // arithmetic shift: sign-filling
                    let sh = *b as u32 & 31;
                    ((*a as i64) >> sh) as i32
                }
                _ => unreachable!(),
            }),
            _ => Val::Null,
        },
    }
}

#[derive(Clone, Debug, PartialEq, Eq, Hash, Serialize, Deserialize)]
pub enum Cond {
    /// (column <aop> literal) <cmp> literal; for Neg and Inv the first literal is unused
    Arith(String, AOp, Val, CmpOp, Val),
    Cmp(String, CmpOp, Val),
    Truthy(String),
    Const(bool),
    And(Box<Cond>, Box<Cond>),
    Or(Box<Cond>, Box<Cond>),
    Not(Box<Cond>),
    /// the 0/1 result of a logical or comparison sub-condition, compared with a literal
    CmpBool(Box<Cond>, CmpOp, Val),
}

impl Cond {
    pub fn columns<'a>(&'a self, out: &mut Vec<&'a str>) {
        match self {
            Cond::Cmp(c, _, _) | Cond::Truthy(c) | Cond::Arith(c, _, _, _, _) => out.push(c.as_str()),
            Cond::Const(_) => {}
            Cond::And(a, b) | Cond::Or(a, b) => {
                a.columns(out);
                b.columns(out);
            }
            Cond::Not(a) | Cond::CmpBool(a, _, _) => a.columns(out),
        }
    }
    pub fn size(&self) -> usize {
        match self {
            Cond::And(a, b) | Cond::Or(a, b) => 1 + a.size() + b.size(),
            Cond::Not(a) | Cond::CmpBool(a, _, _) => 1 + a.size(),
            _ => 1,
        }
    }
}

// ---------------------------------------------------------------- streams

#[derive(Clone, Debug, PartialEq, Eq, Hash, Serialize, Deserialize)]
pub enum WStep {
    Write(u32),
    Seek(u32),
    Flush,
}

#[derive(Clone, Debug, PartialEq, Eq, Hash, Serialize, Deserialize)]
pub enum RStep {
    Read(u32),
    Seek(u32),
    ToEnd,
}

/// Deterministic stream content: byte number `i` written under `dseed`.
pub fn stream_byte(dseed: u32, i: u64) -> u8 {
    let x = crate::prng::mix(&[dseed as u64, i / 8]);
    (x >> ((i % 8) * 8)) as u8
}

/// Applies writer steps to `content` (the model's notion of the result).
pub fn apply_wsteps(dseed: u32, steps: &[WStep], content: &mut Vec<u8>) {
    let mut pos = 0usize;
    let mut counter = 0u64;
    for st in steps {
        match st {
            WStep::Write(n) => {
                for _ in 0..*n {
                    let b = stream_byte(dseed, counter);
                    counter += 1;
                    if pos < content.len() {
                        content[pos] = b;
                    } else {
                        content.push(b);
                    }
                    pos += 1;
                }
            }
            WStep::Seek(p) => {
                pos = (*p as usize).min(content.len());
            }
            WStep::Flush => {}
        }
    }
}

// ---------------------------------------------------------------- summary

#[derive(Clone, Copy, Debug, PartialEq, Eq, Hash, Serialize, Deserialize)]
pub enum SumField {
    Title,
    Subject,
    Author,
    Comments,
    App,
}

#[derive(Clone, Debug, PartialEq, Eq, Hash, Serialize, Deserialize)]
pub enum SumOp {
    SetStr(SumField, String),
    ClearStr(SumField),
    SetUuid(u128),
    ClearUuid,
    SetWordCount(i32),
    ClearWordCount,
    /// seconds and nanoseconds relative to the Unix epoch
    SetTime(i64, u32),
    ClearTime,
    SetArch(String),
    ClearArch,
    SetLangs(Vec<u16>),
    ClearLangs,
    SetCodepage(u32),
}

// ---------------------------------------------------------------- restart / edits

#[derive(Clone, Copy, Debug, PartialEq, Eq, Hash, Serialize, Deserialize)]
pub enum CloseMode {
    IntoInner,
    Drop,
    FlushDrop,
    /// flush() returns Ok, then the process dies: only durable bytes survive
    FlushCrash,
    /// crash with no flush: only the no-panic oracle applies afterwards
    Crash,
}

#[derive(Clone, Debug, PartialEq, Eq, Hash, Serialize, Deserialize)]
pub enum Edit {
    /// another tool adds \u{5}DigitalSignature (and optionally the Ex stream)
    AddSignature(bool),
    AddDocSummary,
    Corrupt(crate::corrupt::CorruptSpec),
}

// ---------------------------------------------------------------- operations

#[derive(Clone, Debug, PartialEq, Eq, Hash, Serialize, Deserialize)]
pub enum Op {
    CreateTable { name: String, cols: Vec<ColSpec> },
    DropTable { name: String },
    Insert { table: String, rows: Vec<Vec<Val>> },
    Update { table: String, sets: Vec<(String, Val)>, cond: Option<Cond> },
    Delete { table: String, cond: Option<Cond> },
    Select { table: String, cols: Vec<String>, cond: Option<Cond> },
    /// read-only: join of two tables on left.lcol = right.rcol
    Join { left: String, right: String, lcol: String, rcol: String, outer: bool },
    WriteStream { name: String, dseed: u32, steps: Vec<WStep> },
    ReadStream { name: String, steps: Vec<RStep> },
    RemoveStream { name: String },
    RemoveSignature,
    Summary(SumOp),
    SetDbCodepage(u32),
    Flush,
    Observe,
    Restart { mode: CloseMode, edits: Vec<Edit> },
    // live handles (C11 extension layer)
    OpenWriter { h: u8, name: String, dseed: u32 },
    WriterStep { h: u8, step: WStep },
    DropWriter { h: u8 },
    /// `UPDATE _Validation SET Nullable, MinValue, MaxValue WHERE Table = t AND Column = c`
    /// through the query API: the file's catalog then differs from the
    /// definitions held in memory until the next open.  The model does not
    /// follow catalog edits, so from here to the end of the run only oracles
    /// that compare the library with itself apply (C04 before/after and twin).
    CatalogEdit { table: String, column: String, nullable: bool, min: Option<i32>, max: Option<i32> },
}

impl Op {
    pub fn kind(&self) -> &'static str {
        match self {
            Op::CreateTable { .. } => "create_table",
            Op::DropTable { .. } => "drop_table",
            Op::Insert { .. } => "insert",
            Op::Update { .. } => "update",
            Op::Delete { .. } => "delete",
            Op::Select { .. } => "select",
            Op::Join { .. } => "join",
            Op::WriteStream { .. } => "write_stream",
            Op::ReadStream { .. } => "read_stream",
            Op::RemoveStream { .. } => "remove_stream",
            Op::RemoveSignature => "remove_signature",
            Op::Summary(_) => "summary",
            Op::SetDbCodepage(_) => "set_db_codepage",
            Op::Flush => "flush",
            Op::Observe => "observe",
            Op::Restart { mode, edits } => {
                if edits.iter().any(|e| matches!(e, Edit::Corrupt(_))) {
                    "restart+corrupt"
                } else {
                    match mode {
                        CloseMode::IntoInner => "restart:into_inner",
                        CloseMode::Drop => "restart:drop",
                        CloseMode::FlushDrop => "restart:flush_drop",
                        CloseMode::FlushCrash => "restart:flush_crash",
                        CloseMode::Crash => "restart:crash",
                    }
                }
            }
            Op::OpenWriter { .. } => "open_writer",
            Op::WriterStep { .. } => "writer_step",
            Op::DropWriter { .. } => "drop_writer",
            Op::CatalogEdit { .. } => "catalog_edit",
        }
    }
    pub fn is_mutation(&self) -> bool {
        !matches!(
            self,
            Op::Select { .. } | Op::Join { .. } | Op::ReadStream { .. } | Op::Observe | Op::Flush | Op::Restart { .. }
        )
    }
}

#[derive(Clone, Debug, PartialEq, Eq, Hash, Serialize, Deserialize)]
pub struct OpRec {
    pub id: u32,
    pub op: Op,
}

#[derive(Clone, Copy, Debug, PartialEq, Eq, Hash, Serialize, Deserialize)]
pub enum PType {
    Installer,
    Patch,
    Transform,
}

#[derive(Clone, Debug, PartialEq, Serialize, Deserialize)]
pub enum Init {
    Create(PType),
    Foreign(Box<crate::foreign::ForeignSpec>),
    /// raw bytes (hex) handed to Package::open
    Raw(String),
}

#[derive(Clone, Debug, PartialEq, Serialize, Deserialize)]
pub struct Knobs {
    pub disk: DiskCfg,
    pub hash_seed: u64,
    /// percent of operations followed by a full observation
    pub observe_pct: u32,
    /// seed of stateless per-op decisions (observation, close mode of
    /// verification reopen, crash subsets)
    pub aux_seed: u64,
}

#[derive(Clone, Debug, PartialEq, Serialize, Deserialize)]
pub struct Trace {
    pub property: String,
    pub profile: String,
    pub seed: u64,
    pub run: u64,
    #[serde(default, skip_serializing_if = "Option::is_none")]
    pub check: Option<String>,
    #[serde(default, skip_serializing_if = "Option::is_none")]
    pub site: Option<String>,
    #[serde(default, skip_serializing_if = "Option::is_none")]
    pub message: Option<String>,
    pub knobs: Knobs,
    pub init: Init,
    pub faults: Vec<FaultSpec>,
    pub ops: Vec<OpRec>,
}

impl Trace {
    pub fn to_json(&self) -> String {
        // one op per line keeps replay files readable and diffable
        let mut head = self.clone();
        head.ops = Vec::new();
        let mut s = serde_json::to_string(&head).unwrap();
        // replace trailing "ops":[] with the multi-line list
        let cut = s.rfind("\"ops\":[]").unwrap();
        s.truncate(cut);
        s.push_str("\"ops\":[\n");
        for (i, o) in self.ops.iter().enumerate() {
            s.push_str("  ");
            s.push_str(&serde_json::to_string(o).unwrap());
            if i + 1 < self.ops.len() {
                s.push(',');
            }
            s.push('\n');
        }
        s.push_str("]}\n");
        s
    }
    pub fn from_json(s: &str) -> Result<Trace, String> {
        serde_json::from_str(s).map_err(|e| e.to_string())
    }
    pub fn brief(&self) -> String {
        let kinds: Vec<&str> = self.ops.iter().map(|o| o.op.kind()).collect();
        kinds.join(" ")
    }
}
