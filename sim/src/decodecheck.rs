//! Oracles over the saved bytes: independent decode vs the model (C08), and
//! the summary-information property set (C10).

use crate::codec::*;
use crate::model::*;
use crate::ops::*;
use std::collections::{BTreeMap, HashSet};

pub struct DecodeFacts {
    pub free_slots: usize,
    pub shared_entries: usize,
    pub long_entries: usize,
    pub big_tables: usize,
    pub pool_len: usize,
}

fn tokens(s: &str, out: &mut HashSet<u32>) {
    let b = s.as_bytes();
    let mut i = 0;
    while i < b.len() {
        if b[i] == b'Q' || b[i] == b'q' {
            let q = b[i];
            let mut j = i + 1;
            while j < b.len() && b[j].is_ascii_digit() {
                j += 1;
            }
            if j > i + 1 && j < b.len() && b[j] == q && j - i <= 11 {
                if let Ok(n) = std::str::from_utf8(&b[i + 1..j]).unwrap().parse::<u32>() {
                    out.insert(n);
                }
                i = j;
                continue;
            }
        }
        i += 1;
    }
}

/// `exact`: the pool's accounting is expected to be exact (library lineage).
pub fn check_decoded(d: &Decoded, m: &Model, exact: bool) -> (Vec<(String, String)>, DecodeFacts) {
    let mut v: Vec<(String, String)> = d.problems.clone();
    let mut facts = DecodeFacts { free_slots: 0, shared_entries: 0, long_entries: 0, big_tables: 0, pool_len: d.pool.len() };
    if d.ptype != Some(m.ptype) {
        v.push(("C08.layout".into(), format!("root class id {} does not denote {:?}", d.clsid, m.ptype)));
    }
    if d.codepage != m.db_cp && !(m.db_cp == 0 && d.codepage == 65001) {
        v.push(("C08.layout".into(), format!("pool header code page {}, expected {}", d.codepage, m.db_cp)));
    }
    if !crate::cp::known(d.codepage) {
        v.push(("C08.layout".into(), format!("pool header code page {} unknown", d.codepage)));
        return (v, facts);
    }
    // table set
    for t in m.tables.keys() {
        if !d.tables.contains_key(t) {
            v.push(("C08.catalog".into(), format!("table {:?} is not in the saved catalog", t)));
        }
    }
    for t in d.tables.keys() {
        if !m.tables.contains_key(t) {
            v.push(("C08.catalog".into(), format!("saved catalog lists table {:?} which does not exist", t)));
        }
    }
    let mut refcount: BTreeMap<u32, u32> = BTreeMap::new();
    for (name, dt) in d.tables.iter() {
        if dt.stream_len > 4096 {
            facts.big_tables += 1;
        }
        let mt = match m.tables.get(name) {
            Some(t) => t,
            None => continue,
        };
        // schema of user tables, from the decoded _Columns rows
        if name != "_Tables" && name != "_Columns" {
            if dt.cols.len() != mt.cols.len() {
                v.push((
                    "C08.catalog".into(),
                    format!("table {:?}: {} columns saved, {} expected", name, dt.cols.len(), mt.cols.len()),
                ));
                continue;
            }
            for (i, ((cn, tw), mc)) in dt.cols.iter().zip(mt.cols.iter()).enumerate() {
                if cn != &mc.name {
                    v.push(("C08.catalog".into(), format!("table {:?} column {}: name {:?}, expected {:?}", name, i + 1, cn, mc.name)));
                }
                let (w, is_str) = match width_of(*tw, d.long_refs) {
                    Ok(x) => x,
                    Err(e) => {
                        v.push(("C08.catalog".into(), format!("table {:?} column {:?}: {}", name, cn, e)));
                        continue;
                    }
                };
                let exp_str = mc.is_str();
                let exp_w = match mc.ty {
                    CType::I16 => 2,
                    CType::I32 => 4,
                    CType::Str(_) => {
                        if d.long_refs {
                            3
                        } else {
                            2
                        }
                    }
                };
                if is_str != exp_str || w != exp_w {
                    v.push((
                        "C08.catalog".into(),
                        format!("table {:?} column {:?}: type word {:#x} does not describe {:?}", name, cn, tw, mc.ty),
                    ));
                }
            }
        }
        // rows
        let mut rows: Vec<Vec<Val>> = Vec::with_capacity(dt.rows.len());
        let mut bad = false;
        for r in dt.rows.iter() {
            let mut out = Vec::with_capacity(r.len());
            for c in r.iter() {
                out.push(match c {
                    Cell::Null => Val::Null,
                    Cell::Int(i) => Val::Int(*i),
                    Cell::Ref(i) => {
                        *refcount.entry(*i).or_insert(0) += 1;
                        match d.pool.get((*i as usize).wrapping_sub(1)) {
                            None => {
                                v.push((
                                    "C08.ref-resolves".into(),
                                    format!("table {:?}: reference {} beyond the pool ({} entries)", name, i, d.pool.len()),
                                ));
                                bad = true;
                                Val::Null
                            }
                            Some(e) => {
                                if e.refcount == 0 {
                                    v.push((
                                        "C08.ref-resolves".into(),
                                        format!("table {:?}: reference {} names a free pool slot", name, i),
                                    ));
                                    bad = true;
                                }
                                Val::Str(crate::cp::decode(d.codepage, &e.bytes).unwrap_or_default())
                            }
                        }
                    }
                });
            }
            rows.push(out);
        }
        if bad {
            continue;
        }
        let same = if mt.exact_seq {
            rows == mt.rows
        } else {
            let mut a: Vec<&Vec<Val>> = rows.iter().collect();
            let mut b: Vec<&Vec<Val>> = mt.rows.iter().collect();
            a.sort_by(|p, q| key_cmp(p, q));
            b.sort_by(|p, q| key_cmp(p, q));
            a == b
        };
        if !same {
            let mut kind = if mt.catalog { "C08.catalog" } else { "C08.ref-resolves" };
            let mut detail = String::new();
            for i in 0..rows.len().max(mt.rows.len()) {
                if rows.get(i) != mt.rows.get(i) {
                    if let (Some(a), Some(b)) = (rows.get(i), mt.rows.get(i)) {
                        for (x, y) in a.iter().zip(b.iter()) {
                            if x != y && (matches!(x, Val::Int(_)) || matches!(y, Val::Int(_))) && !mt.catalog {
                                kind = "C08.int-codec";
                            }
                        }
                    }
                    detail = format!(
                        "row {}: saved {:?}, expected {:?}",
                        i,
                        rows.get(i).map(|r| r.iter().map(|x| x.short()).collect::<Vec<_>>()),
                        mt.rows.get(i).map(|r| r.iter().map(|x| x.short()).collect::<Vec<_>>())
                    );
                    break;
                }
            }
            v.push((
                kind.into(),
                format!("table {:?}: saved rows ({}) differ from expected ({}); {}", name, rows.len(), mt.rows.len(), detail),
            ));
        }
        // text must be stored in the database code page
        if crate::cp::known(m.db_cp) {
            'outer: for r in dt.rows.iter().zip(mt.rows.iter()) {
                for (c, mv) in r.0.iter().zip(r.1.iter()) {
                    if let (Cell::Ref(i), Val::Str(s)) = (c, mv) {
                        if let (Some(e), Some(enc)) =
                            (d.pool.get(*i as usize - 1), crate::cp::encode_strict(m.db_cp, s))
                        {
                            if mt.exact_seq && e.bytes != enc {
                                v.push((
                                    "C08.ref-resolves".into(),
                                    format!("table {:?}: bytes of {} are not its encoding in code page {}", name, mv.short(), m.db_cp),
                                ));
                                break 'outer;
                            }
                        }
                    }
                }
            }
        }
    }
    // accounting
    let mut live_serials = HashSet::new();
    for s in m.live_strings() {
        tokens(s, &mut live_serials);
    }
    let mut total = 0usize;
    for (i, e) in d.pool.iter().enumerate() {
        let idx = i as u32 + 1;
        let cnt = *refcount.get(&idx).unwrap_or(&0);
        total += e.bytes.len();
        if e.refcount == 0 {
            facts.free_slots += 1;
            if !e.bytes.is_empty() {
                v.push(("C08.free-slot".into(), format!("pool entry {} has refcount 0 but {} bytes of text", idx, e.bytes.len())));
            }
        } else if e.bytes.is_empty() {
            v.push(("C08.free-slot".into(), format!("pool entry {} is live (refcount {}) but is the empty string", idx, e.refcount)));
        }
        if e.refcount > 1 {
            facts.shared_entries += 1;
        }
        if e.bytes.len() > 0xffff {
            facts.long_entries += 1;
        }
        if exact {
            if e.refcount != cnt {
                v.push((
                    "C08.refcount".into(),
                    format!(
                        "pool entry {} ({:?}) has refcount {} but {} cells refer to it",
                        idx,
                        crate::cp::decode(d.codepage, &e.bytes[..e.bytes.len().min(40)]).unwrap_or_default(),
                        e.refcount,
                        cnt
                    ),
                ));
            }
        } else if e.refcount < cnt && e.refcount < 0xffff {
            v.push(("C08.refcount".into(), format!("pool entry {} has refcount {} but {} cells refer to it", idx, e.refcount, cnt)));
        }
        if exact && !e.bytes.is_empty() {
            let text = crate::cp::decode(d.codepage, &e.bytes).unwrap_or_default();
            let mut ts = HashSet::new();
            tokens(&text, &mut ts);
            for t in ts {
                if !live_serials.contains(&t) {
                    v.push((
                        "C08.dead-text".into(),
                        format!("pool entry {} still holds text of a string (serial {}) no live cell contains", idx, t),
                    ));
                    break;
                }
            }
        }
    }
    if d.data_used != d.data_len {
        v.push((
            "C08.dead-text".into(),
            format!("string data has {} bytes but the pool accounts for {}", d.data_len, d.data_used),
        ));
    }
    let _ = total;
    // user streams as raw entries
    for (key, sm) in m.streams.iter() {
        let found = d.streams.iter().find(|(n, _)| &crate::names::stream_key(n) == key);
        match found {
            None => v.push(("C11.listing".into(), format!("stream {:?} has no entry in the saved container", sm.names))),
            Some((_, data)) => {
                if data != &sm.data {
                    v.push(("C11.content".into(), format!("stream {:?}: saved bytes differ from what was written", sm.names)));
                }
            }
        }
    }
    for n in d.streams.keys() {
        if !m.streams.contains_key(&crate::names::stream_key(n)) {
            v.push(("C11.listing".into(), format!("saved container holds unexpected stream {:?}", n)));
        }
    }
    let has = |n: &str| d.entries.iter().any(|e| e == n);
    if has(crate::names::SIG) != m.sig || has(crate::names::SIG_EX) != m.sig_ex || has(crate::names::DOCSUMMARY) != m.docsum {
        v.push((
            "C11.signature-only".into(),
            format!(
                "special entries: signature {} ex {} docsummary {}; expected {} {} {}",
                has(crate::names::SIG),
                has(crate::names::SIG_EX),
                has(crate::names::DOCSUMMARY),
                m.sig,
                m.sig_ex,
                m.docsum
            ),
        ));
    }
    if !d.storages.is_empty() {
        v.push(("C11.listing".into(), format!("saved container holds storages {:?}", d.storages)));
    }
    (v, facts)
}

/// Windows timestamp (100 ns since 1601) of a (secs, nanos) pair, floor.
pub fn ticks_of(p: (i64, u32)) -> i128 {
    let nanos = p.0 as i128 * 1_000_000_000 + p.1 as i128;
    let since1601 = nanos + 11_644_473_600i128 * 1_000_000_000;
    since1601.div_euclid(100)
}

pub fn check_summary_stream(raw: &[u8], m: &SummaryM, library_lineage: bool) -> Vec<(String, String)> {
    let mut v = Vec::new();
    let ps = match parse_propset(raw, library_lineage) {
        Ok(p) => p,
        Err(e) => {
            v.push(("C10.propset-wellformed".to_string(), format!("summary stream: {}", e)));
            return v;
        }
    };
    if ps.fmtid != FMTID_SUMMARY {
        v.push(("C10.propset-wellformed".into(), "summary stream has the wrong format id".into()));
    }
    let mut bad = |msg: String| v.push(("C10.propset-values".to_string(), msg));
    let cp = match ps.props.get(&1) {
        Some(PVal::I2(x)) => *x as u16 as u32,
        None => 0,
        Some(o) => {
            bad(format!("code page property has type {:?}", o));
            return v;
        }
    };
    if cp != m.codepage && !(m.codepage == 65001 && cp == 0 && !library_lineage) {
        bad(format!("stored code page {} but {} was set", cp, m.codepage));
    }
    if !crate::cp::known(cp) {
        bad(format!("stored code page {} is unknown", cp));
        return v;
    }
    let check_str = |id: u32, exp: Option<&SStr>, what: &str, out: &mut Vec<(String, String)>| {
        let got = ps.props.get(&id);
        match (got, exp) {
            (None, None) => {}
            (Some(PVal::Str(b)), Some(SStr::Exact(s))) => {
                let ok = match crate::cp::encode_strict(cp, s) {
                    Some(enc) => &enc == b,
                    None => crate::cp::decode(cp, b).map(|t| t.chars().count()) == Some(s.chars().count()),
                };
                if !ok {
                    out.push((
                        "C10.propset-values".into(),
                        format!("{}: stored bytes {:?} are not {:?} in code page {}", what, &b[..b.len().min(32)], s, cp),
                    ));
                }
            }
            (Some(PVal::Str(b)), Some(SStr::Lossy(n))) => {
                if crate::cp::decode(cp, b).map(|t| t.chars().count()) != Some(*n) {
                    out.push(("C10.propset-values".into(), format!("{}: stored text does not have {} characters", what, n)));
                }
            }
            (g, e) => out.push(("C10.propset-values".into(), format!("{}: stored {:?}, expected {:?}", what, g, e))),
        }
    };
    let mut out = Vec::new();
    check_str(2, m.strs.get(&0), "title", &mut out);
    check_str(3, m.strs.get(&1), "subject", &mut out);
    check_str(4, m.strs.get(&2), "author", &mut out);
    check_str(6, m.strs.get(&3), "comments", &mut out);
    check_str(18, m.strs.get(&4), "creating application", &mut out);
    v.extend(out);
    let mut bad = |msg: String| v.push(("C10.propset-values".to_string(), msg));
    match (ps.props.get(&9), m.uuid) {
        (None, None) => {}
        (Some(PVal::Str(b)), Some(u)) => {
            let exp = format!("{{{}}}", uuid::Uuid::from_u128(u).hyphenated()).to_ascii_uppercase();
            if b != exp.as_bytes() {
                bad(format!("uuid stored as {:?}, expected {}", String::from_utf8_lossy(b), exp));
            }
        }
        (g, e) => bad(format!("uuid: stored {:?}, expected {:?}", g, e)),
    }
    match (ps.props.get(&15), m.word_count) {
        (None, None) => {}
        (Some(PVal::I4(a)), Some(b)) if *a == b => {}
        (g, e) => bad(format!("word count: stored {:?}, expected {:?}", g, e)),
    }
    match (ps.props.get(&12), m.time) {
        (None, None) => {}
        (Some(PVal::Time(t)), Some(p)) => {
            let exp = ticks_of(p);
            if (*t as i128 - exp).abs() > 1 {
                bad(format!("creation time stored as tick {}, expected {}", t, exp));
            }
        }
        (g, e) => bad(format!("creation time: stored {:?}, expected {:?}", g, e)),
    }
    match ps.props.get(&7) {
        None => {
            if m.template_set && (m.arch.is_some() || !m.langs.is_empty()) {
                bad("template property missing".into());
            }
        }
        Some(PVal::Str(b)) => {
            let t = crate::cp::decode(cp, b).unwrap_or_default();
            let (a, l) = match t.split_once(';') {
                Some((a, l)) => (a.to_string(), l.to_string()),
                None => (t.clone(), String::new()),
            };
            let arch_ok = match &m.arch {
                None => a.is_empty(),
                Some(SStr::Exact(s)) => &a == s || !crate::cp::representable(cp, s),
                Some(SStr::Lossy(n)) => a.chars().count() == *n,
            };
            let langs: Vec<u16> = l.split(',').filter_map(|x| x.parse().ok()).collect();
            if !arch_ok || langs != m.langs {
                bad(format!("template stored as {:?}, expected arch {:?} languages {:?}", t, m.arch, m.langs));
            }
        }
        Some(o) => bad(format!("template has type {:?}", o)),
    }
    // untouched content of a foreign summary survives a rewrite
    for (id, exp) in m.extra.iter() {
        let ok = match (ps.props.get(id), exp) {
            (Some(PVal::Str(b)), ExtraVal::Str(orig)) => {
                let got = crate::cp::decode(cp, b).unwrap_or_default();
                if crate::cp::representable(cp, orig) {
                    &got == orig
                } else {
                    // not representable in the current summary code page: length only
                    got.chars().count() == orig.chars().count()
                }
            }
            (Some(PVal::Str(b)), ExtraVal::Lossy(n)) => crate::cp::decode(cp, b).map(|t| t.chars().count()) == Some(*n),
            (Some(v), ExtraVal::Other(shown)) => {
                let got = match v {
                    PVal::Empty => "Empty".to_string(),
                    PVal::Null => "Null".to_string(),
                    PVal::I1(x) => format!("I1({})", x),
                    PVal::I2(x) => format!("I2({})", x),
                    PVal::I4(x) => format!("I4({})", x),
                    PVal::Time(t) => format!("Time({})", t),
                    PVal::Str(_) => "Str".to_string(),
                };
                &got == shown
            }
            _ => false,
        };
        if !ok {
            v.push((
                "C10.propset-values".into(),
                format!("foreign summary property {} was {:?} and is now {:?}", id, exp, ps.props.get(id)),
            ));
        }
    }
    if library_lineage {
        for id in ps.props.keys() {
            if ![1u32, 2, 3, 4, 6, 7, 9, 12, 15, 18].contains(id) {
                v.push(("C10.propset-values".into(), format!("unexpected property {} in summary stream", id)));
            }
        }
    }
    v
}
