//! Stored data going bad: raw-sector faults on the image, and stream-layer
//! faults placed through `cfb` so that the container stays valid and the
//! damage reaches msi's own parsers.

use crate::codec::{self, RawStream};
use crate::names;
use crate::prng::Prng;
use serde::{Deserialize, Serialize};

#[derive(Clone, Debug, PartialEq, Eq, Hash, Serialize, Deserialize)]
pub enum CorruptSpec {
    /// position in parts per million of the image length, bit number
    BitFlip(u32, u8),
    Overwrite(u32, u8, u32),
    ZeroSector(u32),
    Truncate(u32),
    CopySector(u32, u32),
    /// replace the whole image by pseudo-random bytes
    RandomBytes(u32, u32),
    /// a cell of a table stream: (table selector, cell selector, kind)
    /// kind 0 null, 1 0xffff, 2 just past the pool, 3 random
    Cell(u32, u32, u8),
    /// stream length games: kind 0 truncate, 1 truncate to odd, 2 extend,
    /// 3 empty, 4 delete; stream selector; amount
    StreamLen(u32, u8, u32),
    /// 0 unknown code page, 1 flip reference width, 2 truncate header
    PoolHeader(u8),
    /// entry selector; kind 0 huge length, 1 zero refcount with text,
    /// 2 refcount 0xffff, 3 spurious long-string escape, 4 length 0 live, 5 free slot with a length,
    /// 6 last record = first half of a long entry, 7 such a half entry appended
    PoolEntry(u32, u8),
    /// malformed property set (kind, argument)
    PropSet(u8, u32),
    RootClsid,
    /// another tool left an entry with an unusual raw name (kind)
    AddEntry(u8),
    /// the pool stream gains this many empty entries
    PoolGrow(u32),
    /// a byte of the string data gets its high bit set (selector)
    DataHighBit(u32),
    /// lost write: a 512-byte sector keeps the content it had in an earlier
    /// image of the same run (sector position in ppm; applied by the executor,
    /// which keeps the earlier images)
    StaleSector(u32),
}

impl CorruptSpec {
    pub fn probe_name(&self) -> &'static str {
        match self {
            CorruptSpec::BitFlip(..) => "corrupt_bitflip",
            CorruptSpec::Overwrite(..) => "corrupt_overwrite",
            CorruptSpec::ZeroSector(..) => "corrupt_zero_sector",
            CorruptSpec::Truncate(..) => "corrupt_truncate",
            CorruptSpec::CopySector(..) => "corrupt_misdirected_sector",
            CorruptSpec::RandomBytes(..) => "corrupt_random_bytes",
            CorruptSpec::Cell(..) => "corrupt_cell",
            CorruptSpec::StreamLen(..) => "corrupt_stream_length",
            CorruptSpec::PoolHeader(..) => "corrupt_pool_header",
            CorruptSpec::PoolEntry(..) => "corrupt_pool_entry",
            CorruptSpec::PropSet(..) => "corrupt_property_set",
            CorruptSpec::RootClsid => "corrupt_root_clsid",
            CorruptSpec::AddEntry(..) => "corrupt_odd_entry_name",
            CorruptSpec::PoolGrow(..) => "corrupt_pool_grown",
            CorruptSpec::DataHighBit(..) => "corrupt_string_data_high_bit",
            CorruptSpec::StaleSector(..) => "corrupt_lost_write_stale_sector",
        }
    }

    pub fn is_stream_layer(&self) -> bool {
        matches!(
            self,
            CorruptSpec::Cell(..)
                | CorruptSpec::StreamLen(..)
                | CorruptSpec::PoolHeader(..)
                | CorruptSpec::PoolEntry(..)
                | CorruptSpec::PropSet(..)
                | CorruptSpec::RootClsid
                | CorruptSpec::AddEntry(..)
                | CorruptSpec::PoolGrow(..)
                | CorruptSpec::DataHighBit(..)
        )
    }

    pub fn apply(&self, image: &mut Vec<u8>, rng: &mut Prng) -> bool {
        let at = |ppm: u32, len: usize| -> usize {
            if len == 0 {
                0
            } else {
                ((ppm as u64 % 1_000_000) * len as u64 / 1_000_000) as usize
            }
        };
        match self {
            CorruptSpec::BitFlip(p, b) => {
                if image.is_empty() {
                    return false;
                }
                let i = at(*p, image.len());
                image[i] ^= 1 << (b % 8);
                true
            }
            CorruptSpec::Overwrite(p, n, seed) => {
                if image.is_empty() {
                    return false;
                }
                let i = at(*p, image.len());
                let mut r = Prng::new(*seed as u64);
                for k in 0..(*n as usize).max(1) {
                    if i + k < image.len() {
                        image[i + k] = r.next_u64() as u8;
                    }
                }
                true
            }
            CorruptSpec::ZeroSector(p) => {
                let n = image.len() / 512;
                if n == 0 {
                    return false;
                }
                let s = at(*p, n) * 512;
                for b in image[s..s + 512].iter_mut() {
                    *b = 0;
                }
                true
            }
            CorruptSpec::Truncate(p) => {
                let n = at(*p, image.len());
                image.truncate(n);
                true
            }
            CorruptSpec::CopySector(a, b) => {
                let n = image.len() / 512;
                if n < 2 {
                    return false;
                }
                let s = at(*a, n) * 512;
                let d = at(*b, n) * 512;
                let src = image[s..s + 512].to_vec();
                image[d..d + 512].copy_from_slice(&src);
                true
            }
            CorruptSpec::StaleSector(_) => false, // needs the earlier image: see apply_stale
            CorruptSpec::RandomBytes(len, seed) => {
                let mut r = Prng::new(*seed as u64);
                *image = (0..*len).map(|_| r.next_u64() as u8).collect();
                true
            }
            _ => self.apply_stream_layer(image, rng),
        }
    }

    /// Lost write: one sector of `image` reverts to what `earlier` held there.
    pub fn apply_stale(ppm: u32, image: &mut Vec<u8>, earlier: &[u8]) -> bool {
        let n = image.len().min(earlier.len()) / 512;
        if n == 0 {
            return false;
        }
        // prefer a sector that actually differs
        let start = ((ppm as u64 % 1_000_000) * n as u64 / 1_000_000) as usize;
        for k in 0..n {
            let s = ((start + k) % n) * 512;
            if image[s..s + 512] != earlier[s..s + 512] {
                image[s..s + 512].copy_from_slice(&earlier[s..s + 512]);
                return true;
            }
        }
        false
    }

    fn apply_stream_layer(&self, image: &mut Vec<u8>, rng: &mut Prng) -> bool {
        let (mut clsid, raw) = match codec::read_all_streams(image) {
            Ok(x) => x,
            Err(_) => return false,
        };
        let mut streams: Vec<RawStream> =
            raw.into_iter().filter(|(_, is_stream, _)| *is_stream).map(|(name, _, data)| RawStream { name, data }).collect();
        let pool_name = names::pack("_StringPool", true);
        let data_name = names::pack("_StringData", true);
        let find = |streams: &Vec<RawStream>, n: &str| streams.iter().position(|s| s.name == n);
        match self {
            CorruptSpec::RootClsid => {
                clsid = "000c1084-0000-0000-c000-000000000047".to_string();
            }
            CorruptSpec::AddEntry(kind) => {
                let name = match kind % 8 {
                    0 => "Extra\u{4840}".to_string(),
                    1 => "\u{4840}\u{4840}Foo".to_string(),
                    2 => "\u{4840}".to_string(),
                    3 => "\u{3800}\u{47ff}\u{4800}\u{483f}".to_string(),
                    4 => "plainASCIIname".to_string(),
                    5 => "\u{5}Unknown".to_string(),
                    6 => format!("{}{}", '\u{4840}', "\u{3801}".repeat(30)),
                    _ => "\u{4840}\u{3b3f}".to_string(),
                };
                if streams.iter().any(|s| s.name == name) {
                    return false;
                }
                streams.push(RawStream { name: name.clone(), data: vec![7u8; (rng.below(40) as usize) * 3] });
                if kind % 16 >= 8 && name == "plainASCIIname" {
                    // ... whose directory entry then loses its name (length = the terminator only)
                    let img = match codec::build_container(&clsid, &streams) {
                        Ok(i) => i,
                        Err(_) => return false,
                    };
                    let pat: Vec<u8> = name.encode_utf16().flat_map(|u| u.to_le_bytes()).collect();
                    let mut img = img;
                    if let Some(at) = img.windows(pat.len()).position(|w| w == &pat[..]) {
                        if at + 66 <= img.len() {
                            for b in img[at..at + pat.len()].iter_mut() {
                                *b = 0;
                            }
                            let l: u16 = if kind % 32 >= 16 { 0 } else { 2 };
                            img[at + 64..at + 66].copy_from_slice(&l.to_le_bytes());
                            *image = img;
                            return true;
                        }
                    }
                    return false;
                }
            }
            CorruptSpec::DataHighBit(sel) => {
                let i = match find(&streams, &data_name) {
                    Some(i) => i,
                    None => return false,
                };
                if streams[i].data.is_empty() {
                    return false;
                }
                let at = *sel as usize % streams[i].data.len();
                streams[i].data[at] |= 0x80;
            }
            CorruptSpec::PoolGrow(n) => {
                let i = match find(&streams, &pool_name) {
                    Some(i) => i,
                    None => return false,
                };
                for _ in 0..*n {
                    streams[i].data.extend_from_slice(&[0, 0, 0, 0]);
                }
            }
            CorruptSpec::Cell(tsel, csel, kind) => {
                let tables: Vec<usize> = streams
                    .iter()
                    .enumerate()
                    .filter(|(_, s)| s.name.starts_with(names::TABLE_MARK) && s.name != pool_name && s.name != data_name && s.data.len() >= 2)
                    .map(|(i, _)| i)
                    .collect();
                if tables.is_empty() {
                    return false;
                }
                if kind % 10 >= 8 {
                    // a row of _Columns now says that a catalog table has one more column
                    // (8: _Validation gets number 11; 9: _Tables gets number 2)
                    let dec = match codec::decode(image) {
                        Ok(d) => d,
                        Err(_) => return false,
                    };
                    let (victim, number) = if kind % 10 == 8 { ("_Validation", 11u16) } else { ("_Tables", 2u16) };
                    let idx = match dec.pool.iter().position(|e| e.bytes == victim.as_bytes() && e.refcount > 0) {
                        Some(i) => i as u32 + 1,
                        None => return false,
                    };
                    let cname = names::pack("_Columns", true);
                    let ci = match find(&streams, &cname) {
                        Some(i) => i,
                        None => return false,
                    };
                    let rw = if dec.long_refs { 3 } else { 2 };
                    let row_bytes = rw + 2 + rw + 2;
                    let d = &mut streams[ci].data;
                    let n = d.len() / row_bytes;
                    if n == 0 {
                        return false;
                    }
                    let r = *csel as usize % n;
                    // column-major: Table refs, then Numbers, then Name refs, then Types
                    let t_at = r * rw;
                    d[t_at] = idx as u8;
                    d[t_at + 1] = (idx >> 8) as u8;
                    if rw == 3 {
                        d[t_at + 2] = (idx >> 16) as u8;
                    }
                    let n_at = n * rw + r * 2;
                    let v = 0x8000u16 + number;
                    d[n_at..n_at + 2].copy_from_slice(&v.to_le_bytes());
                    return match codec::build_container(&clsid, &streams) {
                        Ok(img) => {
                            *image = img;
                            true
                        }
                        Err(_) => false,
                    };
                }
                let pool_entries = find(&streams, &pool_name).map(|i| streams[i].data.len() / 4).unwrap_or(1) as u16;
                let s = &mut streams[tables[*tsel as usize % tables.len()]];
                let cells = s.data.len() / 2;
                let c = (*csel as usize % cells) * 2;
                let v: u16 = match kind % 10 {
                    0 => 0,
                    1 => 0xffff,
                    2 => pool_entries,
                    // the integer 0, -1, 1 and the largest, in 16-bit offset-binary
                    4 => 0x8000,
                    5 => 0x7fff,
                    6 => 0x8001,
                    7 => 0xfffe,
                    _ => rng.next_u64() as u16,
                };
                s.data[c..c + 2].copy_from_slice(&v.to_le_bytes());
            }
            CorruptSpec::StreamLen(sel, kind, n) => {
                if streams.is_empty() {
                    return false;
                }
                let i = *sel as usize % streams.len();
                match kind % 5 {
                    0 => {
                        let l = streams[i].data.len();
                        streams[i].data.truncate(if l == 0 { 0 } else { *n as usize % l });
                    }
                    1 => {
                        let l = streams[i].data.len();
                        let t = if l == 0 { 0 } else { (*n as usize % l) | 1 };
                        streams[i].data.truncate(t.min(l));
                    }
                    2 => {
                        let add = 1 + (*n as usize % 9);
                        for _ in 0..add {
                            let b = rng.next_u64() as u8;
                            streams[i].data.push(b);
                        }
                    }
                    3 => streams[i].data.clear(),
                    _ => {
                        streams.remove(i);
                    }
                }
            }
            CorruptSpec::PoolHeader(kind) => {
                let i = match find(&streams, &pool_name) {
                    Some(i) => i,
                    None => return false,
                };
                let d = &mut streams[i].data;
                if d.len() < 4 {
                    return false;
                }
                match kind % 4 {
                    0 => d[0..4].copy_from_slice(&12345u32.to_le_bytes()),
                    1 => d[3] ^= 0x80,
                    2 => d.truncate(2),
                    _ => {
                        // another *valid* code page than the text was written in
                        let id = [20127u32, 932, 936, 949, 950, 1252, 28591, 65001, 10000, 0][rng.usize_below(10)];
                        let keep = d[3] & 0x80;
                        d[0..4].copy_from_slice(&id.to_le_bytes());
                        d[3] |= keep;
                    }
                }
            }
            CorruptSpec::PoolEntry(sel, kind) => {
                let i = match find(&streams, &pool_name) {
                    Some(i) => i,
                    None => return false,
                };
                let d = &mut streams[i].data;
                let n = d.len().saturating_sub(4) / 4;
                if n == 0 {
                    return false;
                }
                let mut e = 4 + (*sel as usize % n) * 4;
                if kind % 10 == 6 || kind % 10 == 7 {
                    // the very last record of the pool
                    e = 4 + (n - 1) * 4;
                }
                match kind % 10 {
                    // one or two references short of saturation
                    8 => d[e + 2..e + 4].copy_from_slice(&0xfffeu16.to_le_bytes()),
                    9 => d[e + 2..e + 4].copy_from_slice(&0xfffdu16.to_le_bytes()),
                    6 => {
                        // ... becomes the first half of a long-string entry whose second half is missing
                        d[e..e + 2].copy_from_slice(&0u16.to_le_bytes());
                        d[e + 2..e + 4].copy_from_slice(&1u16.to_le_bytes());
                    }
                    7 => {
                        // ... is followed by such a half entry (and sometimes a stray byte)
                        d.extend_from_slice(&[0, 0, 1 + (*sel % 3) as u8, 0]);
                        if *sel % 5 == 0 {
                            d.push(7);
                        }
                    }
                    5 => {
                        // a free slot whose length runs past the string data
                        d[e..e + 2].copy_from_slice(&0xfff0u16.to_le_bytes());
                        d[e + 2..e + 4].copy_from_slice(&0u16.to_le_bytes());
                    }
                    0 => d[e..e + 2].copy_from_slice(&0xfff0u16.to_le_bytes()),
                    1 => d[e + 2..e + 4].copy_from_slice(&0u16.to_le_bytes()),
                    2 => d[e + 2..e + 4].copy_from_slice(&0xffffu16.to_le_bytes()),
                    3 => {
                        d[e..e + 2].copy_from_slice(&0u16.to_le_bytes());
                        d[e + 2..e + 4].copy_from_slice(&0x0fffu16.to_le_bytes());
                    }
                    _ => d[e..e + 2].copy_from_slice(&0u16.to_le_bytes()),
                }
            }
            CorruptSpec::PropSet(kind, arg) => {
                let i = match find(&streams, names::SUMMARY) {
                    Some(i) => i,
                    None => return false,
                };
                let d = &mut streams[i].data;
                if d.len() < 64 {
                    return false;
                }
                let r32 = |d: &Vec<u8>, at: usize| -> Option<usize> {
                    if at.checked_add(4)? <= d.len() {
                        Some(u32::from_le_bytes([d[at], d[at + 1], d[at + 2], d[at + 3]]) as usize)
                    } else {
                        None
                    }
                };
                let so = r32(d, 44).unwrap_or(0);
                let n = r32(d, so.saturating_add(4)).unwrap_or(0).min(64);
                let pick = if n > 0 { *arg as usize % n } else { 0 };
                let poff = so.saturating_add(8 + 8 * pick);
                let voff = r32(d, poff.saturating_add(4)).map(|o| so.saturating_add(o)).unwrap_or(usize::MAX - 16);
                let cp_voff = r32(d, so.saturating_add(12)).map(|o| so.saturating_add(o)).unwrap_or(usize::MAX - 16);
                let w32 = |d: &mut Vec<u8>, at: usize, v: u32| {
                    if at.checked_add(4).map(|e| e <= d.len()).unwrap_or(false) {
                        d[at..at + 4].copy_from_slice(&v.to_le_bytes());
                    }
                };
                match kind % 20 {
                    18 | 19 => {
                        // every ',' and ';' of a string value becomes a digit: "x64;1033,1031" turns into
                        // one long number (18), or its tail does (19)
                        // (the template property, id 7, if the set has one; else the picked one)
                        let mut voff = voff;
                        for k in 0..n {
                            let e = so.saturating_add(8 + 8 * k);
                            if r32(d, e) == Some(7) {
                                if let Some(o) = r32(d, e.saturating_add(4)) {
                                    voff = so.saturating_add(o);
                                }
                            }
                        }
                        let ty = r32(d, voff).unwrap_or(0);
                        let len = r32(d, voff.saturating_add(4)).unwrap_or(0);
                        if ty == 30 && len >= 2 && len < 100_000 {
                            let mut seen = 0;
                            for k in 0..len - 1 {
                                let at = voff.saturating_add(8 + k);
                                if at < d.len() && (d[at] == b',' || d[at] == b';') {
                                    seen += 1;
                                    if kind % 20 == 18 || seen >= 2 {
                                        d[at] = b'9';
                                    }
                                }
                            }
                        }
                    }
                    16 => {
                        // high bit in one byte of a string value: first, last ones, or anywhere
                        let ty = r32(d, voff).unwrap_or(0);
                        let len = r32(d, voff.saturating_add(4)).unwrap_or(0);
                        if ty == 30 && len >= 2 && len < 100_000 {
                            let text = len - 1;
                            let off = match (*arg >> 8) % 6 {
                                0 => 0,
                                1 => text - 1,
                                2 => text.saturating_sub(2),
                                3 => text.saturating_sub(3),
                                4 => text / 2,
                                _ => (*arg as usize >> 12) % text,
                            };
                            let at = voff.saturating_add(8 + off);
                            if at < d.len() {
                                d[at] |= 0x80;
                            }
                        } else {
                            let at = voff.saturating_add(8);
                            if at < d.len() {
                                d[at] |= 0x80;
                            }
                        }
                    }
                    17 => {
                        // the code-page property names another valid page
                        let id = [20127u16, 932, 1252, 65001, 936][*arg as usize % 5];
                        if cp_voff.checked_add(6).map(|e| e <= d.len()).unwrap_or(false) {
                            d[cp_voff + 4..cp_voff + 6].copy_from_slice(&id.to_le_bytes());
                        }
                    }
                    0 => d[0] = 0,
                    1 => d[2] = 7,
                    2 => d[6] = 9,
                    3 => w32(d, 24, 0),
                    4 => w32(d, 44, *arg),
                    5 => { let l = d.len() as u32 - 2; w32(d, 44, l) }
                    6 => w32(d, so.saturating_add(4), 0x7fff_ffff),
                    7 => w32(d, so.saturating_add(4), n as u32 + 1 + arg % 3),
                    8 => w32(d, poff.saturating_add(4), 0xffff_fff0),
                    9 => { let l = d.len().saturating_sub(so).saturating_sub(1) as u32; w32(d, poff.saturating_add(4), l) }
                    10 => w32(d, voff, 77),
                    11 => w32(d, voff.saturating_add(4), 0),
                    12 => w32(d, voff.saturating_add(4), 0xffff_ffff),
                    13 => w32(d, cp_voff, 3),
                    14 => {
                        if cp_voff.checked_add(6).map(|e| e <= d.len()).unwrap_or(false) {
                            d[cp_voff + 4] = 0x39;
                            d[cp_voff + 5] = 0x30;
                        }
                    }
                    _ => {
                        if n >= 2 && so.saturating_add(20) <= d.len() {
                            let first = [d[so + 8], d[so + 9], d[so + 10], d[so + 11]];
                            d[so + 16..so + 20].copy_from_slice(&first);
                        }
                    }
                }
            }
            _ => return false,
        }
        match codec::build_container(&clsid, &streams) {
            Ok(img) => {
                *image = img;
                true
            }
            Err(_) => false,
        }
    }
}
