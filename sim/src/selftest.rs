//! Determinism self-check: the same seeds, executed twice in separate
//! processes and at several worker counts, must give identical event-log
//! digests, operation counts and verdicts.  Exit 0 identical, 2 otherwise.

use crate::gen::Profile;
use crate::runner::*;
use std::collections::BTreeMap;
use std::process::Command;

const PROFILES: [Profile; 12] = [
    Profile::ReadOnly,
    Profile::Clean,
    Profile::Benign,
    Profile::Crash,
    Profile::Foreign,
    Profile::Reject,
    Profile::Schema,
    Profile::Summary,
    Profile::Streams,
    Profile::Handles,
    Profile::Corrupt,
    Profile::Script,
];

fn child_digests(profile: Profile, seed: u64, from: u64, to: u64, procs: u64) -> Result<BTreeMap<u64, String>, String> {
    let exe = std::env::current_exe().map_err(|e| e.to_string())?;
    let chunk = (to - from + procs - 1) / procs;
    let mut children = Vec::new();
    let mut a = from;
    while a < to {
        let b = (a + chunk).min(to);
        let c = Command::new(&exe)
            .args(["digest", "SELF", profile.name(), &seed.to_string(), &a.to_string(), &b.to_string()])
            .stdout(std::process::Stdio::piped())
            .stderr(std::process::Stdio::null())
            .spawn()
            .map_err(|e| e.to_string())?;
        children.push(c);
        a = b;
    }
    let mut out = BTreeMap::new();
    for c in children {
        let o = c.wait_with_output().map_err(|e| e.to_string())?;
        if !o.status.success() {
            return Err(format!("child exited with {:?}", o.status));
        }
        for line in String::from_utf8_lossy(&o.stdout).lines() {
            if let Some((run, rest)) = line.split_once(' ') {
                if let Ok(r) = run.parse::<u64>() {
                    out.insert(r, rest.to_string());
                }
            }
        }
    }
    Ok(out)
}

pub fn selftest(n: u64) -> i32 {
    let seed = verif_seed();
    let t0 = std::time::Instant::now();
    let mut bad = 0u64;
    let mut total = 0u64;
    for p in PROFILES.iter() {
        // two executions in separate processes, split over different numbers of processes
        let a = child_digests(*p, seed, 0, n, 12);
        let b = child_digests(*p, seed, 0, n, 5);
        match (a, b) {
            (Ok(a), Ok(b)) => {
                total += a.len() as u64;
                if a.len() as u64 != n || b.len() as u64 != n {
                    eprintln!("selftest: profile {}: expected {} runs, got {} and {}", p.name(), n, a.len(), b.len());
                    bad += 1;
                }
                for (run, da) in a.iter() {
                    if b.get(run) != Some(da) {
                        eprintln!("selftest: profile {} run {} diverged:\n  {}\n  {:?}", p.name(), run, da, b.get(run));
                        bad += 1;
                    }
                }
            }
            (Err(e), _) | (_, Err(e)) => {
                eprintln!("selftest: {}", e);
                bad += 1;
            }
        }
        // in-process, at three worker counts
        let mut digests = Vec::new();
        for w in [1usize, 4, 16] {
            let out = run_batch("SELF", *p, seed, n.min(400), w, usize::MAX);
            digests.push((out.agg.digest, out.agg.ops, out.agg.oracle_evals, out.agg.disk.total_events()));
        }
        if digests[0] != digests[1] || digests[1] != digests[2] {
            eprintln!("selftest: profile {}: batch digests differ across worker counts: {:?}", p.name(), digests);
            bad += 1;
        }
    }
    println!(
        "selftest: {} runs x 2 processes over {} profiles, 3 worker counts; divergences={} wall={:.1}s",
        total,
        PROFILES.len(),
        bad,
        t0.elapsed().as_secs_f64()
    );
    if bad > 0 {
        eprintln!("harness error: the simulator is not deterministic");
        2
    } else {
        0
    }
}
