//! C20 (placeholder until the boundary scenarios are written).
pub fn check(_tier: &str, _seed: u64) -> i32 {
    eprintln!("C20 not implemented yet");
    2
}
