//! C20: boundary scenarios.  For each capacity limit L, histories that bring
//! the quantity to L-1, L and L+1 -- in one batch, incrementally across
//! calls and restarts, and after deletions have freed capacity again.  The
//! expensive states are fast-forwarded with a foreign-encoded image.

use crate::disk::DiskCfg;
use crate::foreign::*;
use crate::gen;
use crate::model::*;
use crate::ops::*;
use crate::prng::{mix, Prng};
use crate::runner::*;
use std::collections::BTreeMap;
use std::sync::atomic::{AtomicU64, Ordering};
use std::sync::Mutex;
use std::time::Instant;

pub const POOL_LIMIT: usize = 65535;
pub const NKINDS: u64 = 35;

struct B {
    ops: Vec<OpRec>,
    id: u32,
}

impl B {
    fn new() -> B {
        B { ops: Vec::new(), id: 1 }
    }
    fn push(&mut self, op: Op) {
        self.ops.push(OpRec { id: self.id, op });
        self.id += 1;
    }
    fn restart(&mut self, rng: &mut Prng) {
        let mode = *rng.pick(&[CloseMode::IntoInner, CloseMode::Drop, CloseMode::FlushDrop, CloseMode::FlushCrash]);
        self.push(Op::Restart { mode, edits: Vec::new() });
    }
}

fn knobs(rng: &mut Prng) -> Knobs {
    Knobs {
        disk: DiskCfg { write_back: rng.chance(400), disk_seed: rng.next_u64(), ..Default::default() },
        hash_seed: rng.next_u64(),
        observe_pct: 0,
        aux_seed: rng.next_u64(),
    }
}

fn trace(seed: u64, idx: u64, init: Init, ops: Vec<OpRec>, rng: &mut Prng) -> Trace {
    Trace {
        property: "C20".into(),
        profile: "limits".into(),
        seed,
        run: idx,
        check: None,
        site: None,
        message: None,
        knobs: knobs(rng),
        init,
        faults: Vec::new(),
        ops,
    }
}

fn int_rows(from: i32, n: usize) -> Vec<Vec<Val>> {
    (0..n as i32).map(|i| vec![Val::Int(from + i), if i % 7 == 0 { Val::Null } else { Val::Int(i % 100) }]).collect()
}

fn rows_table() -> Op {
    Op::CreateTable {
        name: "R".into(),
        cols: vec![ColSpec::new("K", CType::I32).key(), ColSpec::new("V", CType::I16).nullable()],
    }
}

/// A foreign image whose pool holds exactly `total` distinct live strings.
fn pool_image(total: usize, long_refs: bool, rng: &mut Prng) -> ForeignSpec {
    let mk = |n: usize| -> ForeignSpec {
        let rows: Vec<Vec<Val>> =
            (0..n).map(|i| vec![Val::Int(i as i32 + 1), Val::Str(format!("Q{}Q", 700_000 + i)), Val::Null]).collect();
        ForeignSpec {
            ptype: PType::Installer,
            codepage: 65001,
            long_refs,
            tables: vec![FTable {
                name: "P".into(),
                cols: vec![
                    ColSpec::new("K", CType::I32).key(),
                    ColSpec::new("S", CType::Str(0)).nullable(),
                    ColSpec::new("S2", CType::Str(0)).nullable(),
                ],
                rows,
                sorted: true,
                width1: false,
            }],
            validation: true,
            pool_holes: 0,
            pool_dups: false,
            overcount: 0,
            pool_pad: 0,
            pool_seed: 1,
            summary: FSummary { codepage: Some(65001), props: vec![(2, FProp::Str("t".into()))], layout_seed: 1, section_offset: 48, gaps: false, os: 2, version: 0 },
            streams: Vec::new(),
            signature: false,
            docsummary: false,
            shuffle_catalog: false,
            catalog_first: false,
            stale_validation: Vec::new(),
            saturate: None,
            alt_category: false,
        }
    };
    // the catalog contributes its own strings: measure, then size the table
    let base = mk(0).model().live_strings().len();
    let mut spec = mk(total - base);
    spec.pool_seed = rng.next_u64();
    debug_assert_eq!(spec.model().live_strings().len(), total);
    spec
}

fn prow(k: i32, s: Val) -> Vec<Val> {
    vec![Val::Int(k), s, Val::Null]
}

fn new_str(i: u32) -> Val {
    Val::Str(format!("Q{}Q", 900_000 + i))
}

pub fn scenario(seed: u64, idx: u64) -> Trace {
    let mut rng = Prng::new(mix(&[seed, idx, 0x20]));
    let mut b = B::new();
    let kind = idx % NKINDS;
    let created = Init::Create(*rng.pick(&[PType::Installer, PType::Patch]));
    match kind {
        // ---- 32 columns
        0..=2 => {
            let n = [31usize, 32, 33][kind as usize];
            let cols: Vec<ColSpec> = (0..n)
                .map(|i| {
                    let mut c = ColSpec::new(&format!("C{}", i + 1), if i % 3 == 0 { CType::I32 } else { CType::Str(20) });
                    c.key = i == 0;
                    c.nullable = i != 0;
                    c
                })
                .collect();
            b.push(Op::CreateTable { name: "Wide".into(), cols: cols.clone() });
            b.push(Op::Observe);
            if n <= 32 {
                let row: Vec<Val> =
                    cols.iter().enumerate().map(|(i, c)| if c.is_str() { new_str(i as u32) } else { Val::Int(i as i32) }).collect();
                b.push(Op::Insert { table: "Wide".into(), rows: vec![row] });
            }
            b.restart(&mut rng);
            trace(seed, idx, created, b.ops, &mut rng)
        }
        // ---- 65,536 rows, one batch
        3..=5 => {
            let n = [65535usize, 65536, 65537][kind as usize - 3];
            b.push(rows_table());
            b.push(Op::Insert { table: "R".into(), rows: int_rows(1, n) });
            b.push(Op::Observe);
            b.restart(&mut rng);
            b.push(Op::Select { table: "R".into(), cols: vec!["K".into()], cond: Some(Cond::Cmp("K".into(), CmpOp::Ge, Val::Int(65530))) });
            trace(seed, idx, created, b.ops, &mut rng)
        }
        // ---- rows, incrementally, with restarts in between
        6 | 7 => {
            b.push(rows_table());
            b.push(Op::Insert { table: "R".into(), rows: int_rows(1, 65534) });
            if kind == 7 {
                b.restart(&mut rng);
            }
            b.push(Op::Insert { table: "R".into(), rows: int_rows(100_000, 1) });
            b.push(Op::Insert { table: "R".into(), rows: int_rows(100_001, 1) });
            if kind == 7 {
                b.restart(&mut rng);
            }
            b.push(Op::Insert { table: "R".into(), rows: int_rows(100_002, 1) });
            b.push(Op::Observe);
            b.push(Op::Insert { table: "R".into(), rows: int_rows(100_003, 2) });
            b.restart(&mut rng);
            trace(seed, idx, created, b.ops, &mut rng)
        }
        // ---- rows, after deletions have freed capacity
        8 => {
            b.push(rows_table());
            b.push(Op::Insert { table: "R".into(), rows: int_rows(1, 65536) });
            b.push(Op::Insert { table: "R".into(), rows: int_rows(200_000, 1) });
            b.push(Op::Delete { table: "R".into(), cond: Some(Cond::Cmp("K".into(), CmpOp::Le, Val::Int(10))) });
            b.push(Op::Insert { table: "R".into(), rows: int_rows(200_000, 10) });
            b.push(Op::Insert { table: "R".into(), rows: int_rows(300_000, 1) });
            b.push(Op::Update { table: "R".into(), sets: vec![("V".into(), Val::Int(5))], cond: Some(Cond::Cmp("K".into(), CmpOp::Gt, Val::Int(65000))) });
            b.push(Op::Observe);
            b.restart(&mut rng);
            trace(seed, idx, created, b.ops, &mut rng)
        }
        // ---- 65,535 distinct strings with two-byte references
        9..=16 => {
            let start = match kind {
                9 | 12 | 13 => POOL_LIMIT - 1,
                10 | 11 | 14 | 15 | 16 => POOL_LIMIT,
                _ => POOL_LIMIT,
            };
            let spec = pool_image(start, false, &mut rng);
            match kind {
                9 => {
                    // L-1 -> L accepted, L+1 refused
                    b.push(Op::Insert { table: "P".into(), rows: vec![prow(1_000_001, new_str(1))] });
                    b.push(Op::Insert { table: "P".into(), rows: vec![prow(1_000_002, new_str(2))] });
                    b.push(Op::Observe);
                }
                10 => {
                    // at L: a new string is refused, an existing one is fine
                    b.push(Op::Insert { table: "P".into(), rows: vec![prow(1_000_001, new_str(1))] });
                    b.push(Op::Insert { table: "P".into(), rows: vec![prow(1_000_002, Val::Str(format!("Q{}Q", 700_003)))] });
                    b.push(Op::Insert { table: "P".into(), rows: vec![prow(1_000_003, Val::Null)] });
                }
                11 => {
                    // at L: deleting frees a slot
                    b.push(Op::Delete { table: "P".into(), cond: Some(Cond::Cmp("K".into(), CmpOp::Le, Val::Int(2))) });
                    b.push(Op::Insert { table: "P".into(), rows: vec![prow(1_000_001, new_str(1)), prow(1_000_002, new_str(2))] });
                    b.push(Op::Insert { table: "P".into(), rows: vec![prow(1_000_003, new_str(3))] });
                }
                12 => {
                    // L-1: a batch needing two slots is refused as a whole
                    b.push(Op::Insert { table: "P".into(), rows: vec![prow(1_000_001, new_str(1)), prow(1_000_002, new_str(2))] });
                    b.push(Op::Observe);
                    b.push(Op::Insert { table: "P".into(), rows: vec![prow(1_000_003, new_str(3))] });
                }
                13 => {
                    // L-1 with a restart between the steps
                    b.push(Op::Insert { table: "P".into(), rows: vec![prow(1_000_001, new_str(1))] });
                    b.restart(&mut rng);
                    b.push(Op::Insert { table: "P".into(), rows: vec![prow(1_000_002, new_str(2))] });
                }
                14 => {
                    // at L: update to a new string replaces one (fits); to two rows needs none extra either
                    b.push(Op::Update { table: "P".into(), sets: vec![("S".into(), new_str(1))], cond: Some(Cond::Cmp("K".into(), CmpOp::Eq, Val::Int(5))) });
                    b.push(Op::Update { table: "P".into(), sets: vec![("S".into(), Val::Str(format!("Q{}Q", 700_010)))], cond: Some(Cond::Cmp("K".into(), CmpOp::Le, Val::Int(3))) });
                    b.push(Op::Observe);
                }
                15 => {
                    // at L: creating a table needs new catalog strings
                    b.push(Op::CreateTable { name: "Fresh".into(), cols: vec![ColSpec::new("NewCol", CType::I16).key()] });
                    b.push(Op::Observe);
                }
                _ => {
                    // at L: summary and streams are not limited by the pool
                    b.push(Op::Summary(SumOp::SetStr(SumField::Author, "someone".into())));
                    b.push(Op::WriteStream { name: "Extra".into(), dseed: 5, steps: vec![WStep::Write(100), WStep::Flush] });
                    b.push(Op::Insert { table: "P".into(), rows: vec![prow(1_000_001, new_str(1))] });
                }
            }
            b.restart(&mut rng);
            trace(seed, idx, Init::Foreign(Box::new(spec)), b.ops, &mut rng)
        }
        // ---- three-byte references: no such limit
        17 => {
            let spec = pool_image(POOL_LIMIT, true, &mut rng);
            b.push(Op::Insert { table: "P".into(), rows: vec![prow(1_000_001, new_str(1)), prow(1_000_002, new_str(2))] });
            b.push(Op::Observe);
            b.restart(&mut rng);
            trace(seed, idx, Init::Foreign(Box::new(spec)), b.ops, &mut rng)
        }
        // ---- names
        18 | 19 => {
            let lens: &[usize] = if kind == 18 { &[31, 32, 33] } else { &[59, 60, 61] };
            for (i, l) in lens.iter().enumerate() {
                let mut n = "N".repeat(*l);
                n.replace_range(0..1, &format!("{}", ["A", "B", "C"][i]));
                b.push(Op::CreateTable { name: n, cols: vec![ColSpec::new("K", CType::I16).key()] });
            }
            for l in [31usize, 32, 33, 64, 65] {
                let cn = format!("c{}", "x".repeat(l - 1));
                b.push(Op::CreateTable { name: format!("L{}", l), cols: vec![ColSpec::new("K", CType::I16).key(), ColSpec::new(&cn, CType::I16).nullable()] });
            }
            b.push(Op::Observe);
            b.restart(&mut rng);
            trace(seed, idx, created, b.ops, &mut rng)
        }
        20 => {
            for l in [61usize, 62, 63] {
                b.push(Op::WriteStream { name: "s".repeat(l), dseed: l as u32, steps: vec![WStep::Write(10)] });
            }
            for l in [30usize, 31, 32] {
                b.push(Op::WriteStream { name: "é".repeat(l), dseed: l as u32, steps: vec![WStep::Write(10)] });
            }
            // outside the BMP a character takes two of the 31 UTF-16 units
            for l in [15usize, 16] {
                b.push(Op::WriteStream { name: "😀".repeat(l), dseed: 100 + l as u32, steps: vec![WStep::Write(10)] });
            }
            b.push(Op::WriteStream { name: format!("😀{}", "-".repeat(30)), dseed: 120, steps: vec![WStep::Write(10)] });
            b.push(Op::WriteStream { name: format!("😀{}", "-".repeat(29)), dseed: 121, steps: vec![WStep::Write(10)] });
            // ... and the wide character last, arriving with 2, 1 and 0 units left
            for (i, l) in [29usize, 30, 31].iter().enumerate() {
                b.push(Op::WriteStream { name: format!("{}😀", "-".repeat(*l)), dseed: 130 + i as u32, steps: vec![WStep::Write(10)] });
                b.push(Op::WriteStream { name: format!("{}😀", "Ab".repeat(*l)), dseed: 140 + i as u32, steps: vec![WStep::Write(10)] });
            }
            b.push(Op::Observe);
            b.restart(&mut rng);
            trace(seed, idx, created, b.ops, &mut rng)
        }
        // ---- widths
        21 => {
            for w in [254u32, 255, 256] {
                b.push(Op::CreateTable { name: format!("W{}", w), cols: vec![ColSpec::new("K", CType::Str(w)).key()] });
            }
            b.push(Op::Insert { table: "W255".into(), rows: vec![vec![Val::Str(format!("Q1Q{}", "z".repeat(252)))]] });
            b.push(Op::Insert { table: "W255".into(), rows: vec![vec![Val::Str(format!("Q2Q{}", "z".repeat(253)))]] });
            b.push(Op::Observe);
            b.restart(&mut rng);
            trace(seed, idx, created, b.ops, &mut rng)
        }
        // ---- 16-bit reference counts
        22 => {
            b.push(Op::CreateTable {
                name: "Same".into(),
                // (A: an identifier that may not be null - a cell that loses its text is an invalid cell)
                cols: vec![ColSpec::new("K", CType::I32).key(), ColSpec::new("A", CType::Str(0)).cat("Identifier"), ColSpec::new("B", CType::Str(0)).nullable()],
            });
            let s = Val::Str("Q77Qshared".into());
            let rows: Vec<Vec<Val>> = (0..32768 + rng.below(3) as i32).map(|i| vec![Val::Int(i), s.clone(), s.clone()]).collect();
            b.push(Op::Insert { table: "Same".into(), rows });
            b.push(Op::Observe);
            b.restart(&mut rng);
            if idx / NKINDS % 3 == 2 {
                // one statement assigning 65,536+ references to one string (the count saturates half-way)
                let n = Val::Str("Q76Qall".into());
                b.push(Op::Update { table: "Same".into(), sets: vec![("A".into(), n.clone()), ("B".into(), n)], cond: None });
                b.push(Op::Observe);
                b.restart(&mut rng);
            }
            b.push(Op::Delete { table: "Same".into(), cond: Some(Cond::Cmp("K".into(), CmpOp::Lt, Val::Int(10))) });
            b.push(Op::Update { table: "Same".into(), sets: vec![("B".into(), Val::Null)], cond: Some(Cond::Cmp("K".into(), CmpOp::Lt, Val::Int(100))) });
            b.push(Op::Observe);
            match idx / NKINDS % 3 {
                1 => {
                    // twice as many references again: the count saturates, the number of *distinct* strings stays tiny
                    b.push(Op::CreateTable {
                        name: "Same2".into(),
                        cols: vec![ColSpec::new("K", CType::I32).key(), ColSpec::new("A", CType::Str(0)), ColSpec::new("B", CType::Str(0)).nullable()],
                    });
                    let rows: Vec<Vec<Val>> = (0..33000).map(|i| vec![Val::Int(i), s.clone(), s.clone()]).collect();
                    b.push(Op::Insert { table: "Same2".into(), rows });
                    b.push(Op::Insert { table: "Same2".into(), rows: vec![vec![Val::Int(40000), s.clone(), Val::Str("Q79Qother".into())]] });
                    b.push(Op::Observe);
                    // a table *named* like the string whose first entry is saturated: its catalog cells
                    // point at the second entry
                    b.push(Op::CreateTable { name: "Q77Qshared".into(), cols: vec![ColSpec::new("K", CType::I16).key()] });
                    b.push(Op::Insert { table: "Q77Qshared".into(), rows: vec![vec![Val::Int(1)]] });
                    b.restart(&mut rng);
                    b.push(Op::DropTable { name: "Q77Qshared".into() });
                    b.push(Op::Observe);
                }
                2 => {
                    // one statement that assigns more strings than the pool could hold if each were new
                    let n = Val::Str("Q78Qnew".into());
                    b.push(Op::Update { table: "Same".into(), sets: vec![("A".into(), n.clone()), ("B".into(), n)], cond: None });
                    b.push(Op::Observe);
                    b.push(Op::Delete { table: "Same".into(), cond: Some(Cond::Cmp("K".into(), CmpOp::Lt, Val::Int(20))) });
                }
                _ => {
                    // every reference goes: both entries of the saturated string must become free
                    b.restart(&mut rng);
                    b.push(Op::Delete { table: "Same".into(), cond: None });
                    b.push(Op::Observe);
                }
            }
            b.restart(&mut rng);
            trace(seed, idx, created, b.ops, &mut rng)
        }
        // ---- full pool and a string whose 16-bit reference count is saturated
        24 => {
            let mut spec = pool_image(POOL_LIMIT - (idx / NKINDS % 2) as usize, false, &mut rng);
            let sat = format!("Q{}Q", 700_007);
            spec.saturate = Some(sat.clone());
            // one more reference to it needs a second entry: there may be no room
            b.push(Op::Insert { table: "P".into(), rows: vec![prow(1_000_001, Val::Str(sat.clone()))] });
            b.push(Op::Observe);
            b.push(Op::Update { table: "P".into(), sets: vec![("S".into(), Val::Str(sat))], cond: Some(Cond::Cmp("K".into(), CmpOp::Eq, Val::Int(9))) });
            b.restart(&mut rng);
            trace(seed, idx, Init::Foreign(Box::new(spec)), b.ops, &mut rng)
        }
        // ---- L-1: one row with two new strings is refused as a whole; nothing of it may stay behind
        25 => {
            let spec = pool_image(POOL_LIMIT - 1, false, &mut rng);
            b.push(Op::Insert { table: "P".into(), rows: vec![vec![Val::Int(1_000_001), new_str(1), new_str(2)]] });
            b.push(Op::Observe);
            if idx / NKINDS % 2 == 1 {
                b.restart(&mut rng);
            }
            b.push(Op::Insert { table: "P".into(), rows: vec![prow(1_000_002, new_str(3))] });
            b.push(Op::Insert { table: "P".into(), rows: vec![prow(1_000_003, new_str(4))] });
            b.restart(&mut rng);
            trace(seed, idx, Init::Foreign(Box::new(spec)), b.ops, &mut rng)
        }
        // ---- the catalog's own row limit: _Validation nearly full (rows for tables the file lacks)
        26 => {
            let mut spec = pool_image(2000, false, &mut rng);
            // 256 x 256 (table, column) pairs from 512 distinct strings, minus a few
            let room = [3usize, 10, 0][(idx / NKINDS % 3) as usize];
            let base = spec.model().tables["_Validation"].rows.len();
            let want = 65536 - room - base;
            let mut stale = Vec::with_capacity(want);
            'outer: for a in 0..256 {
                for c in 0..256 {
                    if stale.len() >= want {
                        break 'outer;
                    }
                    stale.push((format!("Zt{}", a), format!("Zc{}", c)));
                }
            }
            spec.stale_validation = stale;
            // needs 4 rows in _Validation: refused when fewer are free, and then nothing may be left behind
            let cols: Vec<ColSpec> = (0..4).map(|i| { let mut c = ColSpec::new(&format!("N{}", i), CType::I16); c.key = i == 0; c.nullable = i != 0; c }).collect();
            b.push(Op::CreateTable { name: "Fresh".into(), cols: cols.clone() });
            b.push(Op::Observe);
            b.push(Op::CreateTable { name: "Fresh2".into(), cols: cols[..2].to_vec() });
            b.push(Op::CreateTable { name: "Fresh3".into(), cols: cols[..1].to_vec() });
            b.restart(&mut rng);
            trace(seed, idx, Init::Foreign(Box::new(spec)), b.ops, &mut rng)
        }
        // ---- a full pool, slots freed, then strings that already exist re-used before new ones arrive
        27 => {
            let spec = pool_image(POOL_LIMIT, false, &mut rng);
            let nfree = [1i32, 40, 3][(idx / NKINDS % 3) as usize];
            b.push(Op::Delete { table: "P".into(), cond: Some(Cond::Cmp("K".into(), CmpOp::Le, Val::Int(nfree))) });
            // (strings of rows 30,001.. are still there: only reference counts change)
            let reuse: Vec<Vec<Val>> = (0..nfree).map(|i| prow(1_000_100 + i, Val::Str(format!("Q{}Q", 700_000 + 30_000 + i as usize)))).collect();
            if idx / NKINDS % 2 == 0 {
                b.push(Op::Insert { table: "P".into(), rows: reuse });
                b.push(Op::Insert { table: "P".into(), rows: (0..nfree).map(|i| prow(1_000_200 + i, new_str(i as u32))).collect() });
            } else {
                // in one batch, given out of key order: new strings first
                let mut rows: Vec<Vec<Val>> = (0..nfree).map(|i| prow(1_000_200 + i, new_str(i as u32))).collect();
                rows.extend(reuse);
                b.push(Op::Insert { table: "P".into(), rows });
            }
            b.push(Op::Observe);
            b.push(Op::Insert { table: "P".into(), rows: vec![prow(1_000_300, new_str(500))] });
            b.restart(&mut rng);
            trace(seed, idx, Init::Foreign(Box::new(spec)), b.ops, &mut rng)
        }
        // ---- read-only sessions on a package that sits exactly at a limit
        28 => {
            let spec = pool_image(POOL_LIMIT - (idx / NKINDS % 2) as usize, false, &mut rng);
            let sel = || Op::Select { table: "P".into(), cols: vec!["K".into(), "S".into()], cond: Some(Cond::Cmp("K".into(), CmpOp::Le, Val::Int(5))) };
            b.push(sel());
            b.push(Op::Flush);
            b.push(Op::Restart { mode: CloseMode::FlushDrop, edits: Vec::new() });
            b.push(sel());
            b.push(Op::Observe);
            b.push(Op::Restart { mode: CloseMode::FlushCrash, edits: Vec::new() });
            b.push(sel());
            b.push(Op::Restart { mode: CloseMode::IntoInner, edits: Vec::new() });
            b.push(Op::Observe);
            b.push(Op::Restart { mode: CloseMode::Drop, edits: Vec::new() });
            trace(seed, idx, Init::Foreign(Box::new(spec)), b.ops, &mut rng)
        }
        // ---- capacity that a session freed only by lowering reference counts
        29 => {
            let spec = pool_image(POOL_LIMIT, false, &mut rng);
            let s6 = Val::Str(format!("Q{}Q", 700_000 + 5)); // the string of row K = 6
            let at = |k: i32| Some(Cond::Cmp("K".into(), CmpOp::Eq, Val::Int(k)));
            // session 1: row 5 shares row 6's string (a reference count goes up, nothing else)
            b.push(Op::Update { table: "P".into(), sets: vec![("S2".into(), s6)], cond: at(5) });
            b.restart(&mut rng);
            // session 2: ... and gives it back (a reference count goes down, nothing else)
            b.push(Op::Update { table: "P".into(), sets: vec![("S2".into(), Val::Null)], cond: at(5) });
            b.restart(&mut rng);
            // session 3: the last holder goes, so there is room for exactly one new string
            b.push(Op::Delete { table: "P".into(), cond: at(6) });
            b.push(Op::Insert { table: "P".into(), rows: vec![prow(1_000_001, new_str(1))] });
            b.push(Op::Observe);
            b.push(Op::Insert { table: "P".into(), rows: vec![prow(1_000_002, new_str(2))] });
            b.restart(&mut rng);
            trace(seed, idx, Init::Foreign(Box::new(spec)), b.ops, &mut rng)
        }
        // ---- capacity given back by setting cells to null
        30 => {
            let spec = pool_image(POOL_LIMIT, false, &mut rng);
            let nfree = [3i32, 1, 20][(idx / NKINDS % 3) as usize];
            b.push(Op::Update { table: "P".into(), sets: vec![("S".into(), Val::Null)], cond: Some(Cond::Cmp("K".into(), CmpOp::Le, Val::Int(nfree))) });
            if idx / NKINDS % 2 == 1 {
                b.restart(&mut rng);
            }
            b.push(Op::Insert { table: "P".into(), rows: (0..nfree).map(|i| prow(1_000_200 + i, new_str(i as u32))).collect() });
            b.push(Op::Observe);
            b.push(Op::Insert { table: "P".into(), rows: vec![prow(1_000_300, new_str(500))] });
            b.restart(&mut rng);
            trace(seed, idx, Init::Foreign(Box::new(spec)), b.ops, &mut rng)
        }
        // ---- both table limits at once: 32 columns x 65,536 rows
        31 => {
            let cols: Vec<ColSpec> = (0..32)
                .map(|i| {
                    let mut c = ColSpec::new(&format!("C{}", i + 1), if i == 0 { CType::I32 } else { CType::I16 });
                    c.key = i == 0;
                    c.nullable = i != 0;
                    c
                })
                .collect();
            b.push(Op::CreateTable { name: "Full".into(), cols });
            let n = [65536i32, 65535, 65537][(idx / NKINDS % 3) as usize];
            let rows: Vec<Vec<Val>> = (0..n).map(|i| (0..32).map(|c| if c == 0 { Val::Int(i) } else if (i + c) % 5 == 0 { Val::Null } else { Val::Int((i + c) % 300) }).collect()).collect();
            b.push(Op::Insert { table: "Full".into(), rows });
            b.push(Op::Select { table: "Full".into(), cols: vec!["C1".into(), "C32".into()], cond: Some(Cond::Cmp("C1".into(), CmpOp::Ge, Val::Int(65530))) });
            b.push(Op::Delete { table: "Full".into(), cond: Some(Cond::Cmp("C1".into(), CmpOp::Lt, Val::Int(3))) });
            b.restart(&mut rng);
            b.push(Op::Select { table: "Full".into(), cols: vec!["C1".into()], cond: Some(Cond::Cmp("C1".into(), CmpOp::Lt, Val::Int(6))) });
            trace(seed, idx, created, b.ops, &mut rng)
        }
        // ---- a full pool: replacing a *shared* string by a new one frees nothing
        32 => {
            let spec = pool_image(POOL_LIMIT, false, &mut rng);
            let s6 = Val::Str(format!("Q{}Q", 700_000 + 5));
            let at = |k: i32| Some(Cond::Cmp("K".into(), CmpOp::Eq, Val::Int(k)));
            b.push(Op::Update { table: "P".into(), sets: vec![("S2".into(), s6)], cond: at(5) });
            if idx / NKINDS % 2 == 1 {
                b.restart(&mut rng);
            }
            // row 6's string is still used by row 5: the new one needs an entry there is no room for
            b.push(Op::Update { table: "P".into(), sets: vec![("S".into(), new_str(1))], cond: at(6) });
            b.push(Op::Observe);
            // an unshared one is replaced in place
            b.push(Op::Update { table: "P".into(), sets: vec![("S".into(), new_str(2))], cond: at(7) });
            b.push(Op::Observe);
            b.restart(&mut rng);
            trace(seed, idx, Init::Foreign(Box::new(spec)), b.ops, &mut rng)
        }
        // ---- a full pool with freed entries: a new table's few strings fit
        33 => {
            let spec = pool_image(POOL_LIMIT, false, &mut rng);
            b.push(Op::Delete { table: "P".into(), cond: Some(Cond::Cmp("K".into(), CmpOp::Le, Val::Int(10))) });
            if idx / NKINDS % 2 == 1 {
                b.restart(&mut rng);
            }
            let mut c2 = ColSpec::new("NewCol2", CType::Str(20)).nullable();
            c2.category = Some("Identifier".into());
            b.push(Op::CreateTable { name: "Fresh".into(), cols: vec![ColSpec::new("NewCol", CType::I16).key(), c2] });
            b.push(Op::Observe);
            b.push(Op::Insert { table: "Fresh".into(), rows: vec![vec![Val::Int(1), new_str(3)]] });
            b.restart(&mut rng);
            trace(seed, idx, Init::Foreign(Box::new(spec)), b.ops, &mut rng)
        }
        // ---- the newest (trailing) entries are released and refilled, then the limit is passed
        34 => {
            let k = [3i32, 1, 6][(idx / NKINDS % 3) as usize];
            let spec = pool_image(POOL_LIMIT - k as usize, false, &mut rng);
            b.push(Op::Insert { table: "P".into(), rows: (0..k).map(|i| prow(1_000_000 + i, new_str(i as u32))).collect() });
            b.push(Op::Delete { table: "P".into(), cond: Some(Cond::Cmp("K".into(), CmpOp::Ge, Val::Int(1_000_000))) });
            b.push(Op::Insert { table: "P".into(), rows: (0..k).map(|i| prow(1_000_100 + i, new_str(100 + i as u32))).collect() });
            b.push(Op::Observe);
            // over the limit by no more than what was refilled
            b.push(Op::Insert { table: "P".into(), rows: (0..k.min(2)).map(|i| prow(1_000_200 + i, new_str(200 + i as u32))).collect() });
            b.push(Op::Insert { table: "P".into(), rows: vec![prow(1_000_300, new_str(300))] });
            b.restart(&mut rng);
            trace(seed, idx, Init::Foreign(Box::new(spec)), b.ops, &mut rng)
        }
        // ---- a seeded ordinary history on top of a near-full pool
        _ => {
            let spec = pool_image(POOL_LIMIT - 1 - rng.usize_below(3), false, &mut rng);
            let mut t = gen::generate("C20", gen::Profile::Limits, seed, idx);
            t.profile = "limits".into();
            t.init = Init::Foreign(Box::new(spec));
            t.knobs.observe_pct = 0;
            t
        }
    }
}

pub fn check(tier: &str, seed: u64) -> i32 {
    let thorough = tier == "thorough";
    let scale: f64 = std::env::var("VERIF_SCALE").ok().and_then(|s| s.parse().ok()).unwrap_or(1.0);
    let n = (((if thorough { NKINDS * 40 } else { NKINDS * 3 }) as f64) * scale).max(1.0) as u64;
    let t0 = Instant::now();
    let known = load_known();
    let next = AtomicU64::new(0);
    let agg = Mutex::new(Agg::default());
    let found: Mutex<Vec<Found>> = Mutex::new(Vec::new());
    let kinds: Mutex<BTreeMap<u64, u64>> = Mutex::new(BTreeMap::new());
    std::thread::scope(|s| {
        for _ in 0..threads().min(8) {
            s.spawn(|| loop {
                let idx = next.fetch_add(1, Ordering::Relaxed);
                if idx >= n {
                    break;
                }
                let attempt = std::panic::catch_unwind(std::panic::AssertUnwindSafe(|| {
                    let t = scenario(seed, idx);
                    let r = run_one(&t);
                    (t, r)
                }));
                match attempt {
                    Ok((t, r)) => {
                        let mut a = agg.lock().unwrap();
                        local_absorb(&mut a, &t, &r.stats, idx);
                        *kinds.lock().unwrap().entry(idx % NKINDS).or_insert(0) += 1;
                        if let Some(v) = r.violations.iter().find(|v| v.property() == "C20") {
                            found.lock().unwrap().push(Found { trace: t, violation: v.clone() });
                        } else if let Some(v) = r.violations.first() {
                            *a.other_property.entry(v.check.clone()).or_insert(0) += 1;
                        }
                    }
                    Err(_) => {
                        eprintln!("harness error: simulator panicked in limits scenario {} (seed {})", idx, seed);
                        HARNESS_ERRORS.fetch_add(1, Ordering::Relaxed);
                    }
                }
            });
        }
    });
    let mut found = found.into_inner().unwrap();
    found.sort_by_key(|f| f.trace.run);
    let mut violations = 0;
    let mut reported: Vec<String> = Vec::new();
    let mut known_hits = Vec::new();
    for f in found.iter() {
        let sig = f.violation.signature();
        if reported.contains(&sig) {
            continue;
        }
        if let Some(k) = known.matches(&f.violation) {
            let line = format!("KNOWN-FINDING: property=C20 {} [{}]", k.2, k.1);
            if !known_hits.contains(&line) {
                println!("{}", line);
                known_hits.push(line);
            }
            continue;
        }
        reported.push(sig);
        // boundary scenarios are short by construction; only drop trailing ops
        let (mt, mv, _) = minimise(f, 12);
        let path = write_replay("C20", &mt, &mv);
        violations += 1;
        println!("violation: check={} site={} scenario={} message={}", mv.check, mv.site, f.trace.run % NKINDS, mv.message);
        println!("VIOLATION property=C20 replay={}", path.display());
    }
    report_known(&known, "C20", &mut known_hits);
    let wall = t0.elapsed().as_secs_f64();
    let agg = agg.into_inner().unwrap();
    let mut extra = BTreeMap::new();
    extra.insert(
        "scenario_kinds".to_string(),
        serde_json::json!("0-2 columns 31/32/33; 3-5 rows 65535/65536/65537 in one batch; 6-7 rows incrementally (with restarts); 8 rows after deletions; 9-16 string pool at L-1/L with two-byte references (insert, batch, delete-then-insert, update, create_table, restart in between); 17 three-byte references; 18-19 table/column name lengths; 20 stream name lengths; 21 string widths 254/255/256; 22 16-bit refcount saturation; 23 seeded history on a near-full pool; 24 full pool plus a string with a saturated refcount; 25 one row needing two entries when one is free; 26 _Validation at its own 65,536-row limit; 27 full pool, freed slots, existing strings re-used before new ones; 28 read-only sessions on a full pool; 29 capacity freed by sessions that only lower reference counts; 30 capacity given back by nulling cells; 31 32 columns x 65,536 rows; 32 a shared string replaced at a full pool; 33 create_table into freed entries of a full pool; 34 trailing entries released and refilled before the limit is passed"),
    );
    extra.insert("scenarios_per_kind".to_string(), serde_json::json!(kinds.into_inner().unwrap().into_iter().map(|(k, v)| (k.to_string(), v)).collect::<BTreeMap<_, _>>()));
    let rep = CheckReport {
        property: "C20".into(),
        tier: tier.into(),
        seed,
        level: "exploration".into(),
        agg,
        wall_s: wall,
        violations,
        known_hits,
        rule: "one case = one boundary scenario (limit x approach x seeded close modes / disk mode); non-trivial = at least one successful mutation and one oracle evaluation; distinct = different (operation-kind sequence, final model state) fingerprint".into(),
        assumptions: vec![
            "the 65,535-string states are fast-forwarded by a foreign-encoded image (reaching them through the API costs O(n^2))".into(),
            "pool capacity is predicted from the number of distinct live strings; scenarios start from pools without holes or duplicates so that slots = distinct strings".into(),
        ],
        per_profile: vec![("limits".into(), n)],
        extra,
    };
    write_evidence(&rep);
    println!("scenarios={} wall={:.1}s violations={}", n, wall, violations);
    if HARNESS_ERRORS.load(Ordering::Relaxed) > 0 {
        return 2;
    }
    if violations > 0 {
        1
    } else {
        0
    }
}
