#!/usr/bin/env python3
"""try_seed.py <worktree> <a|b> <seed-id> <target property> [more properties...]
1. confirms in the scratch worktree: demo passes without the patch; with the patch the existing
   suite passes and the demo fails;
2. applies the patch to /repo, runs ./check <property> quick for each property, undoes the patch;
3. stores /verif/seeded/<seed-id>/{patch.diff,demo.rs,notes.md,meta.json}.
"""
import json, os, shutil, subprocess, sys, time

def sh(cmd, cwd=None, timeout=3600):
    p = subprocess.run(cmd, shell=True, cwd=cwd, stdout=subprocess.PIPE, stderr=subprocess.STDOUT, text=True, timeout=timeout)
    return p.returncode, p.stdout

wt, letter, sid, props = sys.argv[1], sys.argv[2], sys.argv[3], sys.argv[4:]
src = f"{wt}/seed/{letter}"
env = f"CARGO_TARGET_DIR={wt}/target CARGO_NET_OFFLINE=true"
meta = {"seed_id": sid, "breaks_property": props[0], "worktree": wt, "ran": []}
sh("git checkout -- . && rm -f tests/seed_demo.rs", cwd=wt)
shutil.copy(f"{src}/demo.rs", f"{wt}/tests/seed_demo.rs")
rc, out = sh(f"{env} cargo test --offline --test seed_demo 2>&1 | tail -15", cwd=wt)
rc0, _ = sh(f"{env} cargo test --offline --test seed_demo", cwd=wt)
meta["demo_passes_without_patch"] = (rc0 == 0)
rc, out = sh(f"git apply {src}/patch.diff", cwd=wt)
meta["patch_applies"] = (rc == 0)
rc1, out1 = sh(f"{env} cargo test --offline --test seed_demo", cwd=wt)
meta["demo_fails_with_patch"] = (rc1 != 0)
os.remove(f"{wt}/tests/seed_demo.rs")
rc2, out2 = sh(f"{env} cargo test --workspace --offline 2>&1 | grep -E '^test result' ", cwd=wt)
passed = sum(int(l.split()[3]) for l in out2.splitlines() if l.startswith("test result"))
failed = sum(int(l.split()[5]) for l in out2.splitlines() if l.startswith("test result"))
meta["existing_suite_with_patch"] = {"passed": passed, "failed": failed}
sh("git checkout -- . && rm -f tests/seed_demo.rs", cwd=wt)
ok = meta["demo_passes_without_patch"] and meta["patch_applies"] and meta["demo_fails_with_patch"] and failed == 0 and passed >= 111
meta["confirmed"] = ok
print(json.dumps(meta, indent=1))
if not ok:
    print("NOT CONFIRMED"); sys.exit(1)
# run checks against /repo with the patch applied
rc, out = sh(f"git -C /repo status --porcelain")
assert out.strip() == "", "repo not clean: " + out
rc, out = sh(f"git -C /repo apply {src}/patch.diff")
assert rc == 0, out
try:
    for p in props:
        t0 = time.time()
        rc, out = sh(f"VERIF_ROOT=/tmp/verif-snap ./check {p} quick", cwd="/tmp/verif-snap")
        lines = [l[:300] for l in out.splitlines() if l.startswith(("violation:", "VIOLATION", "KNOWN", "harness"))]
        meta["ran"].append({"cmd": f"./check {p} quick", "exit": rc, "wall_s": round(time.time() - t0, 1), "lines": lines[:6]})
        print(p, "exit", rc, *lines[:3], sep="\n   ")
finally:
    sh("git -C /repo checkout -- .")
    # restore evidence of the unchanged tree later (evidence files are rewritten by the run)
meta["caught_by"] = [r["cmd"].split()[1] for r in meta["ran"] if r["exit"] == 1]
d = f"/verif/seeded/{sid}"
os.makedirs(d, exist_ok=True)
for f in ("patch.diff", "demo.rs", "notes.md"):
    if os.path.exists(f"{src}/{f}"):
        shutil.copy(f"{src}/{f}", f"{d}/{f}")
notes = open(f"{src}/notes.md").read() if os.path.exists(f"{src}/notes.md") else ""
meta["needs_to_manifest"] = notes[:1500]
json.dump(meta, open(f"{d}/meta.json", "w"), indent=1)
print("caught_by:", meta["caught_by"])
