#!/bin/sh
# tools/sweep.sh <first seed> <last seed> [tier]  (PROPS="C15 C20" restricts the list) -- runs every check for a range of VERIF_SEED values
# against a private copy of the simulator (and of the repository when $VP_RUN_REPO is set), printing
# only what needs attention.  Not a registered check: a false-alarm hunt.
set -u
HERE="$(cd "$(dirname "$0")/.." && pwd)"
REPO="${VP_RUN_REPO:-/repo}"
WORK="$(mktemp -d /tmp/sweep.XXXXXX)"
trap 'rm -rf "$WORK"' EXIT
cp -r "$HERE/sim" "$WORK/sim"
rm -rf "$WORK/sim/target"
sed -i "s|path = \"/repo\"|path = \"$REPO\"|" "$WORK/sim/Cargo.toml"
cp "$HERE/known_findings.txt" "$WORK/"
cd "$WORK/sim" && CARGO_NET_OFFLINE=true cargo build --release --offline >/dev/null 2>&1 || { echo "build failed"; exit 2; }
TIER="${3:-quick}"
for seed in $(seq "$1" "$2"); do
  for p in ${PROPS:-C01 C02 C03 C04 C05 C06 C08 C09 C10 C11 C15 C16 C20}; do
    out=$(VERIF_ROOT="$WORK" VERIF_SEED=$seed ./target/release/msisim check $p $TIER 2>&1)
    rc=$?
    if [ $rc -ne 0 ]; then
      echo "seed=$seed property=$p exit=$rc"
      echo "$out" | grep -E "^violation|^harness|panicked" | cut -c1-600
      mkdir -p "$HERE/../sweep-replays" 2>/dev/null
      cp "$WORK"/replays/* /tmp/ 2>/dev/null
    fi
  done
  echo "seed $seed done"
done
