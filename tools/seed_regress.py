#!/usr/bin/env python3
"""seed_regress.py [seed ids...]  -- re-runs every kept seeded change (or the named ones) against the
current checks: applies /verif/seeded/<id>/patch.diff to /repo, runs ./check <property> quick for the
properties recorded in meta.json, undoes the patch, and rewrites meta.json["regress"] and
/verif/seeded/TABLE.md.  Uses a private copy of /verif (VERIF_ROOT) so evidence of the unchanged tree
is not overwritten."""
import glob, json, os, subprocess, sys, time

def sh(cmd, cwd=None):
    p = subprocess.run(cmd, shell=True, cwd=cwd, stdout=subprocess.PIPE, stderr=subprocess.STDOUT, text=True)
    return p.returncode, p.stdout

snap = "/tmp/verif-regress"
sh(f"rsync -a --delete --exclude sim/target /verif/ {snap}/")
# REGRESS_REPO=<path>: use a scratch worktree of /repo's HEAD there instead of /repo itself
# (so /repo stays free for other work); the private simulator copy is pointed at it.
REPO = os.environ.get("REGRESS_REPO", "/repo")
if REPO != "/repo":
    sh(f"git -C /repo worktree remove --force {REPO}; rm -rf {REPO}; git -C /repo worktree prune")
    rc, out = sh(f"git -C /repo worktree add --detach {REPO} HEAD")
    assert rc == 0, out
    sh(f"sed -i 's|path = \"/repo\"|path = \"{REPO}\"|' {snap}/sim/Cargo.toml")
ids = sys.argv[1:] or sorted(os.path.basename(os.path.dirname(p)) for p in glob.glob("/verif/seeded/*/meta.json"))
rc, out = sh(f"git -C {REPO} status --porcelain")
assert out.strip() == "", "repo not clean"
for sid in ids:
    d = f"/verif/seeded/{sid}"
    meta = json.load(open(f"{d}/meta.json"))
    props = [r["cmd"].split()[1] for r in meta.get("ran", [])] or [meta["breaks_property"]]
    if meta["breaks_property"] not in props:
        props.insert(0, meta["breaks_property"])
    rc, out = sh(f"git -C {REPO} apply {d}/patch.diff")
    assert rc == 0, (sid, out)
    res = []
    try:
        for p in props:
            t0 = time.time()
            rc, out = sh(f"VERIF_ROOT={snap} ./check {p} quick", cwd=snap)
            viol = [l for l in out.splitlines() if l.startswith("violation:")]
            first = viol[0].split(" message=")[0].replace("violation: ", "") if viol else ""
            import re
            mm = re.search(r"^(?:runs|scenarios|scripts)=(\d+)", out, re.M)
            res.append({"property": p, "exit": rc, "first": first, "wall_s": round(time.time() - t0, 1), "runs_until_stop": int(mm.group(1)) if mm else None})
            print(sid, p, rc, first, flush=True)
    finally:
        sh(f"git -C {REPO} checkout -- .")
    meta["regress"] = res
    meta["caught_by"] = [r["property"] for r in res if r["exit"] == 1]
    json.dump(meta, open(f"{d}/meta.json", "w"), indent=1)
rows = ["| seed | breaks | what the change does | caught by (quick tier) | first check that fired | runs until caught |", "|---|---|---|---|---|---|"]
for p in sorted(glob.glob("/verif/seeded/*/meta.json")):
    m = json.load(open(p))
    what = m.get("summary") or ""
    reg = m.get("regress") or [{"property": r["cmd"].split()[1], "exit": r["exit"], "first": ""} for r in m.get("ran", [])]
    caught = ", ".join(r["property"] for r in reg if r["exit"] == 1) or "**not caught**"
    missed = ", ".join(r["property"] for r in reg if r["exit"] == 0)
    first = next((r["first"] for r in reg if r["exit"] == 1 and r["first"]), "")
    own = next((r for r in reg if r["property"] == m["breaks_property"]), None)
    runs = own.get("runs_until_stop") if own and own.get("exit") == 1 else None
    rows.append(f"| {m['seed_id']} | {m['breaks_property']} | {what} | {caught}" + (f" (not by {missed})" if missed else "") + f" | {first} | {runs if runs is not None else ''} |")
if REPO != "/repo":
    sh(f"git -C /repo worktree remove --force {REPO}; rm -rf {REPO}; git -C /repo worktree prune")
open("/verif/seeded/TABLE.md", "w").write("\n".join(rows) + "\n")
print("\n".join(rows))
